#!/bin/bash
# reseed.sh <seed-id> [tier] [props...] -- re-run the check(s) against a kept seeded change (/verif/seeded/<id>/patch.diff)
# applied to a scratch worktree of /repo's current HEAD; appends the outcome to seeded/<id>/meta.json ("rechecks").
set -u
ID=$1; TIER=${2:-quick}; shift; shift 2>/dev/null
P=${ID%-*}
PROPS=${@:-$P}
WT=/tmp/rs-$ID
. /verif/env.sh
git -C /repo worktree remove --force $WT >/dev/null 2>&1
git -C /repo worktree add -q --detach $WT HEAD || exit 3
cd $WT
applies=yes
git apply --check /verif/seeded/$ID/patch.diff 2>/dev/null || applies=no
if [ $applies = yes ]; then git apply /verif/seeded/$ID/patch.diff; else git apply --3way /verif/seeded/$ID/patch.diff >/dev/null 2>&1; fi
builds=yes; go build ./... >/dev/null 2>&1 || builds=no
cd /verif
OUT=""
for Q in $PROPS; do
  if [ $builds = yes ]; then
    VERIF_REPO=$WT VERIF_SCRATCH=/tmp/vs-rs-$ID /verif/vcheck $Q $TIER > /tmp/rs-$ID.$Q.log 2>&1; rc=$?
  else rc=99; fi
  viol=$(grep -c '^VIOLATION' /tmp/rs-$ID.$Q.log 2>/dev/null)
  first=$(grep -A1 '^VIOLATION' /tmp/rs-$ID.$Q.log 2>/dev/null | grep 'check=' | head -1 | cut -c1-200)
  echo "reseed $ID: applies=$applies builds=$builds check $Q $TIER exit=$rc violations=$viol :: $first"
  OUT="$OUT{\"property\":\"$Q\",\"tier\":\"$TIER\",\"exit\":$rc,\"violation_lines\":${viol:-0},\"applies_cleanly\":\"$applies\",\"builds\":\"$builds\",\"base_commit\":\"$(git -C /repo rev-parse --short HEAD)\",\"verif_commit\":\"$(git -C /verif rev-parse --short HEAD)\"},"
done
python3 - <<PY
import json
p="/verif/seeded/$ID/meta.json"
m=json.load(open(p))
m.setdefault("rechecks",[]).extend(json.loads("["+"""$OUT""".rstrip(",")+"]"))
json.dump(m,open(p,"w"),indent=1)
PY
git -C /repo worktree remove --force $WT; rm -rf /tmp/vs-rs-$ID
