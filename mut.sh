#!/bin/bash
# mut.sh <name> <property> [tier] -- reads a sed/python edit script from stdin, applies it in a scratch worktree of /repo,
# runs the check against that worktree (VERIF_REPO) and removes the worktree. Prints the exit status.
set -u
name=$1; prop=$2; tier=${3:-quick}
wt=/tmp/wt-$name
git -C /repo worktree remove --force $wt >/dev/null 2>&1
git -C /repo worktree add -q --detach $wt HEAD || exit 3
script=$(mktemp); cat > $script
( cd $wt && bash $script ) || { echo "edit failed"; }
( cd $wt && git diff --stat | tail -1 )
( cd $wt && . /verif/env.sh && go build ./... ) || echo "MUTANT DOES NOT BUILD"
VERIF_REPO=$wt VERIF_SCRATCH=/tmp/vs-$name /verif/vcheck $prop $tier 2>&1 | cut -c1-400 | tail -8
echo "mutant=$name prop=$prop exit=${PIPESTATUS[0]}"
git -C /repo worktree remove --force $wt; rm -rf /tmp/vs-$name $script
