#!/usr/bin/env python3
"""Validate MANIFEST.json and every evidence file against the schemas (uses the tooling venv's jsonschema)."""
import json, sys, glob, jsonschema
m = json.load(open('/verif/MANIFEST.json'))
jsonschema.validate(m, json.load(open('/root/.vp/MANIFEST.schema.json')))
es = json.load(open('/root/.vp/EVIDENCE.schema.json'))
ids = [json.loads(l)['id'] for l in open('/verif/properties.jsonl')]
claimed = [c['property_id'] for c in m['checks']]
na = [c['property_id'] for c in m.get('not_applicable', [])]
for f in sorted(glob.glob('/verif/evidence/*.json')):
    e = json.load(open(f)); jsonschema.validate(e, es)
    print(f, e['tier'], 'eval', e['coverage']['evaluations'], 'nontriv', e['coverage']['distinct_nontrivial'], 'viol', e.get('violations'))
missing = [i for i in ids if i not in claimed and i not in na]
print('claimed', claimed); print('not_applicable', na); print('unaccounted', missing)
