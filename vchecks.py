"""Per-property run configuration for vcheck.

Each test entry: name (Go test function), quick / thorough: dict(checks=rapid case count, shards=processes,
timeout=s, env={...}, fuzz="30s" for native fuzz targets).
"""

CHECKS = {
    "C11": dict(
        pkg="c11", level="exploration",
        assumptions=["'valid' means derivable from doc/querylanguage.md plus the surface freedoms shown in query_test.go",
                     "where/set are compared behaviourally on generated rows, not structurally"],
        tests=[
            dict(name="TestC11Valid", quick=dict(checks=60000, timeout=300), thorough=dict(checks=400000, shards=16, timeout=1500)),
            dict(name="TestC11Reject", quick=dict(checks=30000, timeout=300), thorough=dict(checks=200000, shards=8, timeout=1500)),
            dict(name="TestC11Mutants", quick=dict(checks=60000, timeout=300), thorough=dict(checks=400000, shards=16, timeout=1500)),
            dict(name="FuzzC11", quick=dict(skip=True), thorough=dict(fuzz="300s", timeout=600, procs=16)),
        ]),
}
