"""Per-property run configuration for vcheck.

Each test entry: name (Go test function), quick / thorough: dict(checks=rapid case count, shards=processes,
timeout=s, env={...}, fuzz="30s" for native fuzz targets).
"""

NOT_APPLICABLE = {}

CHECKS = {
    "C11": dict(
        pkg="c11", level="exploration",
        technique="property-based testing (rapid): grammar-generated queries compared with the abstract query they were rendered from (round trip; where/set behaviourally), must-reject shapes, token/byte mutants; native fuzzing in the thorough tier",
        level_text="Random search over queries rendered from generated abstract queries in every documented surface variation (clause order, keyword case, separators, whitespace, quoted strings, back-quoted fields); the parse result is compared field by field with the abstract query, where/set by evaluating both on generated rows; 33 grammar-excluded shapes must be rejected with an error; mutants and fuzz inputs must never panic nor be accepted without a select list.",
        level_note="Validity is defined by doc/querylanguage.md plus the surface freedoms evidenced by query_test.go; exploration only, no claim of absence beyond the generated cases.",
        assumptions=["'valid' means derivable from doc/querylanguage.md plus the surface freedoms shown in query_test.go",
                     "where/set are compared behaviourally on generated rows, not structurally"],
        tests=[
            dict(name="TestC11Valid", quick=dict(checks=60000, timeout=300), thorough=dict(checks=400000, shards=16, timeout=1500)),
            dict(name="TestC11Reject", quick=dict(checks=30000, timeout=300), thorough=dict(checks=200000, shards=8, timeout=1500)),
            dict(name="TestC11Mutants", quick=dict(checks=60000, timeout=300), thorough=dict(checks=400000, shards=16, timeout=1500)),
            dict(name="FuzzC11", quick=dict(skip=True), thorough=dict(fuzz="300s", timeout=600, procs=16)),
        ]),
    "C18": dict(
        pkg="c18", level="exploration", bins=["dcat", "dgrep", "dtail"],
        technique="property-based testing (rapid): generated server lists/files/filters vs. a set-semantics reference model, plus small-scope exhaustive enumeration; the real client binaries (incl. the retrying dtail) against harness-owned listeners, connections per address compared with the distinct entries",
        level_text="Random lists (1..3000 entries, duplicates, host:port forms) through the comma, file and plug-in sources with generated /regex/ filters are compared, as sorted multisets and over three calls (time-seeded shuffle), with the set of distinct matching entries; every list up to a small length over a 3-word alphabet is enumerated completely.",
        level_note="The /regex/ filter is only reachable through a discovery plug-in module (the shipped COMMA/FILE sources read the same string the filter is given in), so it is driven through the guarded VERIF module; empty entries ('a,,b') are outside the domain.",
        tests=[
            dict(name="TestC18Random", quick=dict(checks=4000, timeout=300), thorough=dict(checks=20000, shards=16, timeout=1500)),
            dict(name="TestC18Exhaustive", quick=dict(timeout=300), thorough=dict(timeout=1500)),
            dict(name="TestC18Connections", quick=dict(checks=8, shards=8, timeout=600), thorough=dict(checks=80, shards=8, timeout=3000)),
        ]),
    "C16": dict(
        pkg="c16", level="exploration",
        technique="property-based testing (rapid): generated server messages and byte streams into the colouring function and the three client handlers; differential oracle strip-ANSI(coloured) == plain, crash oracle; native fuzzing in the thorough tier",
        level_text="Generated messages (every record prefix with 0..9 fields of arbitrary bytes, hidden and empty messages) go through brush.Colorfy and, as chunked streams with every delimiter combination, through the client, mapreduce and health handlers in both colour modes with stdout captured; a panic or any difference between the ANSI-stripped coloured output and the plain output is a violation.",
        level_note="In-process: the handlers and the stdout logger are the ones the client binaries use; colours are the built-in defaults. The mapreduce result table is covered under C05.",
        tests=[
            dict(name="TestC16Colorfy", quick=dict(checks=150000, timeout=300), thorough=dict(checks=1000000, shards=8, timeout=1500)),
            dict(name="TestC16Streams", quick=dict(checks=15000, timeout=300), thorough=dict(checks=100000, shards=8, timeout=1500)),
            dict(name="TestC16Aggregate", quick=dict(checks=50000, timeout=300), thorough=dict(checks=400000, shards=4, timeout=1500)),
            dict(name="FuzzC16", quick=dict(skip=True), thorough=dict(fuzz="240s", timeout=600, procs=16)),
        ]),
    "C03": dict(
        pkg="c03", level="exploration",
        technique="property-based testing (rapid) against an independent grep reference model, plus small-scope exhaustive enumeration of the context state machine",
        level_text="The server's file reader (the code dgrep runs per file) is driven in-process with generated files, RE2 patterns, invert and before/after/max values and compared line by line with a reference model written from the property text; every selected/unselected vector up to a small length is enumerated completely with all context combinations.",
        level_note="'grep semantics' = the pattern is matched against the line without its terminator; '' with --invert is outside the domain. The end-to-end path (flags, serialisation, server decoding) is covered by C12.",
        tests=[
            dict(name="TestC03Exhaustive", quick=dict(timeout=600), thorough=dict(timeout=3000)),
            dict(name="TestC03Random", quick=dict(checks=20000, timeout=600), thorough=dict(checks=1000000, shards=15, timeout=3400)),
        ]),
    "C01": dict(
        pkg="c01", level="exploration", bins=["dcat"], helpers=["vserver"],
        technique="property-based testing (rapid): generated byte strings as file content, real dcat binary (serverless and over SSH to an in-process server), oracle = reference line-splitter applied to the (decompressed) content, byte-exact",
        level_text="The dcat binary built from the working tree is run on generated files (every byte value, protocol delimiter bytes, leading dots, runs around MaxLineLength and around the 32 KiB transport buffer, missing final newline, gzip/zstd) serverless and through a real SSH server; stdout must equal the reference split of the content byte for byte. Known open findings are excluded from the clean generators by construction and recognised by signature on the full-domain generators.",
        level_note="Trusted: the harness' SplitLong model (unit-tested), gzip/zstd compressors used to prepare inputs. vserver = cmd/dserver without the root check.",
        tests=[
            dict(name="TestC01Witness", quick=dict(timeout=120), thorough=dict(timeout=120)),
            dict(name="TestC01Serverless", quick=dict(checks=700, timeout=600), thorough=dict(checks=16000, shards=8, timeout=3400)),
            dict(name="TestC01ServerlessFull", quick=dict(checks=300, timeout=600), thorough=dict(checks=8000, shards=4, timeout=3400)),
            dict(name="TestC01SSH", quick=dict(checks=200, timeout=600), thorough=dict(checks=6000, shards=4, timeout=3400)),
            dict(name="TestC01SSHFull", quick=dict(checks=100, timeout=600), thorough=dict(checks=4000, shards=2, timeout=3400)),
        ]),
    "C12": dict(
        pkg="c12", level="exploration", bins=["dgrep", "dmap"], helpers=["vserver"],
        technique="property-based testing (rapid): end-to-end differential - lines selected by the real dgrep binary (flag -> serialise -> base64 envelope -> server decode -> reader) vs. the grep reference model with the user's pattern compiled directly; plus in-process serialise/deserialise round trips",
        level_text="Generated patterns rich in the characters the three splitting stages use, both flags, context values and output modes are sent through the real dgrep binary serverless and over SSH; the selected lines and the output mode must equal what the user's pattern selects directly. In-process round trips cover the full integer range of the options.",
        level_note="Patterns are bounded at 1 KiB (a command larger than one 32 KiB client read is cut by the client handler; stated bound). Lines avoid byte 0xAC and, in plain mode, a leading '.' (open findings of C01).",
        tests=[
            dict(name="TestC12Serverless", quick=dict(checks=900, timeout=600), thorough=dict(checks=30000, shards=8, timeout=3400)),
            dict(name="TestC12SSH", quick=dict(checks=250, timeout=600), thorough=dict(checks=12000, shards=4, timeout=3400)),
            dict(name="TestC12RoundTrip", quick=dict(checks=50000, timeout=600), thorough=dict(checks=3000000, shards=2, timeout=3400)),
            dict(name="TestC12MaprSession", quick=dict(checks=40, timeout=600), thorough=dict(checks=2500, shards=2, timeout=3400)),
        ]),
    "C08": dict(
        pkg="c08", level="exploration", bins=["dcat"],
        technique="property-based testing (rapid): generated directory layouts with symlinks/special files, rule lists and requests; oracle = last-match-wins reference model over paths resolved by an independent file-tree model; differential on the set of unique secrets served by the real dcat binary",
        level_text="Generated trees (symlink chains, loops, links to directories and to /dev/zero, FIFOs, '..' segments, relative paths, globs) and ordered allow/deny rule lists (bare or 'readfiles:'-prefixed, with POSIX classes and literal ':') are checked both at the permission API and end to end: the secrets printed by dcat must be exactly those of the files the model allows. Verdicts are asked a second time on the same user object after links were re-pointed, and a long-lived session on a real server handler requests the same paths before and after links are re-pointed: an answer must follow the file a path leads to at the time of the request.",
        level_note="Default build (linuxacl tag off). Background users are documented to bypass the rules and are outside the domain; check/open races are outside the quantifier. Invalid rule regexes are outside the domain.",
        tests=[
            dict(name="TestC08Verdict", quick=dict(checks=4000, timeout=600), thorough=dict(checks=40000, shards=8, timeout=3000)),
            dict(name="TestC08Session", quick=dict(checks=150, shards=4, timeout=600), thorough=dict(checks=3000, shards=6, timeout=3000)),
            dict(name="TestC08E2E", quick=dict(checks=400, timeout=600), thorough=dict(checks=4000, shards=8, timeout=3000)),
        ]),
    "C05": dict(
        pkg="c05", level="exploration",
        technique="property-based testing (rapid): metamorphic relation (any partition of the lines into servers x files x partial transmissions gives the single-partition result) over the real server and client aggregators, plus an independent reference evaluator of the query language on the restricted domain",
        level_text="Generated tables in the three log formats and grammar-generated queries run through the real server-side aggregators (one per simulated server, several files, forced partial transmissions) and the real client-side re-aggregation and CSV writer, without transport; the result is compared with the single-partition run of the same code and, on tables where dtail's semantics are unambiguous, with an independent central evaluator (rows as a multiset, tolerance for float sums, any valid top-k under limit, any group value for last/len).",
        level_note="Transport and the client-chosen table regex are covered end to end by C06/C15 runs of the dmap binary. NaN/Inf tokens, the aggregate-message delimiter runes and ',' in values are outside the domain. Order direction (order = descending) is taken from the repository's own expected outputs.",
        tests=[
            dict(name="TestC05Clean", quick=dict(checks=250, shards=8, timeout=900), thorough=dict(checks=12000, shards=11, timeout=3400)),
            dict(name="TestC05Wide", quick=dict(checks=250, shards=8, timeout=900), thorough=dict(checks=12000, shards=5, timeout=3400)),
            dict(name="TestC05Scale", quick=dict(checks=2, shards=6, timeout=900), thorough=dict(checks=15, shards=8, timeout=3400)),
        ]),
    "C10": dict(
        pkg="c10", level="exploration",
        technique="property-based testing (rapid) with a crash oracle: generated command sequences written to real server/health handlers hosted in a crash-isolated worker process with a liveness probe and a bystander session; native fuzzing of the same entry in the thorough tier",
        level_text="Structured generators (command word x options x arguments x regex x query, plus raw garbage and broken envelopes) drive Handler.Write of the real server and health handlers in a child process whose address space is capped; a recovered panic, the death of the worker or a bystander session that no longer gets its file is a violation, attributed to a single case by replay in a fresh worker.",
        level_note="'Authenticated client' = anything that reaches Handler.Write. Huge files are outside the domain; a single command that makes the server allocate gigabytes is inside (6 GB cap). Panics that only fire after the 5 s retry sleeps are caught by a late probe and attributed to a window of cases.",
        tests=[
            dict(name="TestC10Attack", quick=dict(checks=600, shards=6, timeout=900), thorough=dict(checks=12000, shards=12, timeout=3400)),
            dict(name="FuzzC10", quick=dict(skip=True), thorough=dict(fuzz="300s", timeout=700, procs=16)),
        ]),
    "C09": dict(
        pkg="c09", level="exploration", helpers=["vserver"],
        technique="property-based testing (rapid): generated authorized_keys files, offered keys, users, passwords and job configurations against the public-key callback in-process and against a real server over real SSH handshakes; reference predicate for who may log in; secrecy oracle for health sessions",
        level_text="Generated authorized_keys texts (three key types, options, comments, blank and whitespace lines anywhere, CRLF, missing final newline) and every pairing of service users with passwords and job allow-lists are checked against the rule 'granted iff key listed / health password / job name of the right kind from an allowed address'; granted health sessions are sent read and map commands naming a planted secret, which must never come back. The password callback is also driven in-process with generated job lists and IPv4/IPv6 peer addresses. Key files are put in place the way tools do it (in place, by rename, keeping an old or the previous modification time), job names may exist in both job lists with different allow lists, and look-alike service user names are paired with valid credentials.",
        level_note="Only loopback addresses exist in the sandbox, so the deny side of AllowFrom is exercised with lists that do not contain loopback. 'Well-formed file' = every non-blank, non-comment line is a valid authorized_keys line.",
        tests=[
            dict(name="TestC09KeyCallback", quick=dict(checks=5000, timeout=600), thorough=dict(checks=250000, shards=6, timeout=3400)),
            dict(name="TestC09PasswordCallback", quick=dict(checks=8000, timeout=600), thorough=dict(checks=300000, shards=4, timeout=3400)),
            dict(name="TestC09Handshake", quick=dict(checks=300, timeout=600), thorough=dict(checks=12000, shards=6, timeout=3400)),
        ]),
    "C14": dict(
        pkg="c14", level="exploration", helpers=["vserver"],
        technique="property-based testing (rapid), model-based: generated histories of connection attempts of every kind against a real server process, compared step by step with a set model of the open authenticated connections (the server's reported count, acceptance of new logins, bursts)",
        level_text="Each generated history runs against a fresh server with a small MaxConnections; the harness is the SSH client and ends connections gracefully or with a TCP reset. After every step the count the server reports must equal the model, a login must be accepted exactly when a slot is free, a burst may never establish more sessions than free slots, and finally every slot must be given back.",
        level_note="The reported count is read from the MAPREDUCE:STATS lines the server logs on every change (polled up to 5 s). During a burst only the upper bound and progress are asserted.",
        tests=[
            dict(name="TestC14History", quick=dict(checks=250, shards=6, timeout=900), thorough=dict(checks=5000, shards=14, timeout=3400)),
        ]),
    "C13": dict(
        pkg="c13", level="exploration",
        technique="property-based testing (rapid), model-based: generated histories of sessions starting, queueing, draining and being cancelled over shared limiter channels, with the set of open files (/proc/self/fd) and the limiter occupancy compared with a counting-semaphore model after every step",
        level_text="Real server handlers run in-process on harness-owned limiter channels of small capacity; sessions read files larger than every queue so that a read stays in progress until the harness drains it. After every generated step the number of files open must never exceed the limit, must equal the model's value at quiescence, tokens held must equal reads in progress, cancelled sessions must neither keep nor free a slot, and in the end every slot (cat and tail) must be usable again. Some histories rotate a followed file away while other follows queue; from then on only the limits themselves are asserted until everything is cancelled.",
        level_note="'In progress' is observed as 'file open by the process'. Schedules are sampled, not enumerated; with the verif tag a deterministic placement of the cancellation between limiter wait and acquisition is added in the thorough tier.",
        tests=[
            dict(name="TestC13History", quick=dict(checks=150, shards=6, timeout=900), thorough=dict(checks=800, shards=12, timeout=3400)),
        ]),
    "C07": dict(
        pkg="c07", level="exploration", bins=["dcat", "dgrep"], helpers=["vserver"],
        technique="property-based testing (rapid): generated multi-server / multi-file layouts of tagged lines read by the real dcat/dgrep binaries from several real servers at once; validity oracle over every output line (whole line, right label, right number, per-source order, completeness), line numbers under grep context options compared with the grep reference model",
        level_text="Up to six real server processes with distinct host labels each serve their own generated files (1 B to 70 KiB lines, up to 2000 lines; MaxLineLength 6000 on half of the servers so that long lines arrive as numbered pieces, the default elsewhere so that records span several transport reads) to one client; every line the client prints must be a well-formed log record or a REMOTE record whose content is exactly line n of the source its host and file labels name, with n running without gaps per source.",
        level_note="Relative speeds are varied through file sizes and line lengths only (schedules are sampled, not enumerated). Byte 0xAC is excluded from line content (open finding C01/delim-0xac). One glob per session, so the multi-command early shutdown (open finding of C02) is out of the picture.",
        tests=[
            dict(name="TestC07Interleave", quick=dict(checks=80, shards=6, timeout=900), thorough=dict(checks=3000, shards=12, timeout=3400)),
        ]),
    "C17": dict(
        pkg="c17", level="exploration", bins=["dcat"], helpers=["vserver"],
        technique="property-based testing (rapid), model-based: generated known_hosts files, contacted hosts and user answers against the real host-key callback and prompt (stdin/stdout replaced by pipes); reference model of who is let through; invariants over the rewritten file; plus the real dcat binary against real servers with prepared known_hosts files (no command may reach an untrusted server)",
        level_text="The real KnownHostsCallback is driven in-process: host key callbacks for generated sets of known, unknown and changed hosts run concurrently, the batched prompt is answered through a pipe, and afterwards the verdict of every callback and the rewritten known_hosts file are checked (parses, accepts the trusted hosts by name and address, unrelated entries byte-identical and in order, two new lines per trusted host, untouched after 'no'). End to end, the real dcat binary contacts 1..3 real servers whose keys are known / unknown / changed in the prepared file, with trust-all or an answer on stdin: a server that is not trusted delivers nothing and logs no command, a known or trust-all server is served, and the file is rewritten correctly or left byte-identical.",
        level_note="Lines longer than 64 KiB are outside the domain (x/crypto's knownhosts refuses such a file before dtail's rewrite can run). A key revoked in the file for a contacted host is outside the domain.",
        tests=[
            dict(name="TestC17Callback", quick=dict(checks=30, shards=8, timeout=900), thorough=dict(checks=500, shards=10, timeout=3400)),
            dict(name="TestC17Cancel", quick=dict(checks=12, shards=3, timeout=600), thorough=dict(checks=200, shards=4, timeout=3000)),
            dict(name="TestC17E2E", quick=dict(checks=8, shards=6, timeout=900), thorough=dict(checks=120, shards=6, timeout=3400)),
        ]),
    "C15": dict(
        pkg="c15", level="fault_enumeration", bins=["dmap"],
        technique="property-based testing (rapid) with fault injection: generated histories of dmap runs (append / non-append, clean / SIGKILL at a generated instant / SIGKILL at the k-th hit of every outfile write step via hooks) with the outfile path sampled continuously; oracle = atomicity invariant over every observed state plus the reference evaluator for 'complete final result'",
        level_text="The real dmap binary reads generated log lines from a paced pipe so that interim results are written, while a sampler reads the outfile and its .query file every ~0.2 ms. Runs end cleanly, by SIGKILL at a generated instant, or by SIGKILL at the k-th hit of each hooked write step (query file write/rename, outfile open/header/each row/rows done/rename); the kill-point test enumerates every k the fault-free run produced for small results. Every observed state must be: absent, the earlier content, or the complete final result as the reference evaluator predicts it (non-append); a pure extension of the previous state with the header only at the start of an empty file (append); the .query file is never torn and holds the query text whenever the result is visible.",
        level_note="'Killed' = process death (SIGKILL); no power-loss/fsync claim. Kill points are the hooked steps plus random instants; unhooked instants between two write() calls of one row are only sampled.",
        tests=[
            dict(name="TestC15History", quick=dict(checks=8, shards=12, timeout=900), thorough=dict(checks=60, shards=14, timeout=3400)),
            dict(name="TestC15KillPoints", quick=dict(timeout=900), thorough=dict(timeout=3400)),
        ]),
    "C06": dict(
        pkg="c06", level="exploration", bins=["dmap", "dcat"], helpers=["vserver"],
        technique="property-based testing (rapid): (a) concurrent delivery of real server-side aggregate messages into the real client-side merge with a spinning reporter, compared with the reference evaluator; (b) the real dmap binary serverless and against fresh server processes under generated file layouts, limits, command shapes, CPU load and hook-placed delays, final CSV compared with the reference evaluator (fixed and grammar-generated queries); hook await actions carve out the schedule subspace free of the known defect, whose signature is recognised in the hook trace elsewhere",
        level_text="Layer 1 releases one goroutine per simulated server at once, each pushing the messages the real server aggregator produced into its own real client aggregator over one shared global group set while a reporter spins, 25 rounds per case; the final CSV must equal the central evaluation. Layer 2 runs the real dmap binary over 1..130 files per server, 0..24 servers, limits below and above the file count, one glob or one command per file, with sleeps at the hooked aggregator / registration / limiter / merge points and CPU hogs; exit 0 within the deadline and totals equal to the central evaluation of all lines. In the clean schedule space two hook await actions let the server know what the client knows (how many files / commands follow), there every failure is a violation; in the free space a failing run must show the known defect's signature in its hook trace.",
        level_note="Schedules are sampled (load, hook delays), not enumerated. Termination is a bounded-response check (120 s, repeated once). The known finding 'aggregator-ends-early' (server cannot know that more files or commands follow) is suppressed only when the trace shows the aggregator's 'no more files' decision before all files were registered, or the session's shutdown before all commands arrived.",
        tests=[
            dict(name="TestC06Witness", quick=dict(timeout=600), thorough=dict(timeout=600)),
            dict(name="TestC06Merge", quick=dict(checks=80, shards=4, timeout=900), thorough=dict(checks=3000, shards=6, timeout=3400)),
            dict(name="TestC06E2E", quick=dict(checks=8, shards=10, timeout=900), thorough=dict(checks=250, shards=10, timeout=3400)),
        ]),
    "C02": dict(
        pkg="c02", level="exploration", bins=["dcat", "dgrep"], helpers=["vserver"],
        technique="property-based testing (rapid): generated sessions of the real dcat/dgrep binaries (serverless and over SSH) whose output is consumed by a generated pacing reader, and of the real server handler in-process with the harness as a paced client, both with hook-placed delays at the shutdown handshake, command accounting and limiter; oracle = per-file projection of the output equals the selected lines, once, in order, exit 0 / close handshake offered, bounded termination",
        level_text="Generated file sets with line counts around the internal queue capacities are read through the real client binaries while the harness consumes their stdout at a generated pace (tiny reads, small pipe, uniform slowness, stalls of up to 5.6 s placed at a fraction of the stream or just before its end); commands come as one glob, one per file or the same file twice, with limits that force queueing, and the verif hooks add delays at the shutdown handshake, between commands and around the limiter. The tagged lines delivered per file must be exactly the selected ones, once and in order, exit status 0, and the session must end by itself. A second layer plays the client against the real server handler in-process (no transport buffering, 16 B..32 KiB reads, pauses placed by message number, hook delays on the n-th queued line), where the lines received before the close handshake must be complete. Files are stored plain, gzip or zstd; a single file may lack its final newline; one shape stalls 3.5 s early in a large file so that the read outlasts the reader's 3 s housekeeping tick.",
        level_note="Termination is a bounded-response check (60 s + twice the generated pauses; a miss is re-examined with a fast consumer before it is reported). Schedules are sampled, not enumerated. The known finding 'session-ends-before-all-commands-arrived' is suppressed only for multi-command sessions whose hook trace shows the shutdown beginning before the last command had arrived.",
        tests=[
            dict(name="TestC02Witness", quick=dict(timeout=600), thorough=dict(timeout=600)),
            dict(name="TestC02E2E", quick=dict(checks=12, shards=10, timeout=900), thorough=dict(checks=300, shards=10, timeout=3400)),
            dict(name="TestC02Handler", quick=dict(checks=60, shards=6, timeout=900), thorough=dict(checks=900, shards=6, timeout=3400)),
        ]),
    "C04": dict(
        pkg="c04", level="exploration",
        technique="property-based testing (rapid): generated append schedules (line contents up to 64 KiB, write() boundaries incl. inside lines and inside multi-byte characters, delays around the poll interval, filter, queue size, consumer pauses) against the real tail reader in-process, alone and with 2..4 readers sharing one delivery queue; oracle = exact sequence equality with the appended complete lines (ample queue) / in-order subsequence with announced gaps and a final line that must arrive (tiny queue)",
        level_text="The server's tail reader is started on a harness-owned file; once /proc shows its descriptor positioned at the end of the pre-existing content, the harness appends generated lines through a generated sequence of write() calls and delays while a generated consumer takes lines from the delivery queue. With an ample queue the delivered lines must equal the complete appended (selected) lines byte for byte, once, in order, with nothing from before the follow and a partial line only after its completion; with a tiny queue the delivered lines must be an in-order subsequence and the first line after each gap must report a transmission percentage below 100; a line appended while the consumer is idle and the queue empty must arrive; a partial line is sometimes held for 3.3 s, across the reader's 3 s housekeeping tick. A long-follow test appends from 1..3 writers as fast as they can for 4..10 s (nothing may be lost or glued on that tick). A further test lets 2..4 followed files share one queue (as the follows of one session do) and judges every file through its source id.",
        level_note="Pre-existing content ends with a newline (what 'the line' is otherwise is not defined). Truncation/rotation is outside the statement. Schedules of writer, poller and consumer are sampled through generated delays, not enumerated.",
        tests=[
            dict(name="TestC04Follow", quick=dict(checks=10, shards=10, timeout=900), thorough=dict(checks=250, shards=10, timeout=3400)),
            dict(name="TestC04LongFollow", quick=dict(checks=2, shards=4, timeout=900), thorough=dict(checks=12, shards=5, timeout=3400)),
            dict(name="TestC04SharedQueue", quick=dict(checks=25, shards=6, timeout=900), thorough=dict(checks=600, shards=6, timeout=3400)),
        ]),
}
