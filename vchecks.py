"""Per-property run configuration for vcheck.

Each test entry: name (Go test function), quick / thorough: dict(checks=rapid case count, shards=processes,
timeout=s, env={...}, fuzz="30s" for native fuzz targets).
"""

NOT_APPLICABLE = {}

CHECKS = {
    "C11": dict(
        pkg="c11", level="exploration",
        technique="property-based testing (rapid): grammar-generated queries compared with the abstract query they were rendered from (round trip; where/set behaviourally), must-reject shapes, token/byte mutants; native fuzzing in the thorough tier",
        level_text="Random search over queries rendered from generated abstract queries in every documented surface variation (clause order, keyword case, separators, whitespace, quoted strings, back-quoted fields); the parse result is compared field by field with the abstract query, where/set by evaluating both on generated rows; 33 grammar-excluded shapes must be rejected with an error; mutants and fuzz inputs must never panic nor be accepted without a select list.",
        level_note="Validity is defined by doc/querylanguage.md plus the surface freedoms evidenced by query_test.go; exploration only, no claim of absence beyond the generated cases.",
        assumptions=["'valid' means derivable from doc/querylanguage.md plus the surface freedoms shown in query_test.go",
                     "where/set are compared behaviourally on generated rows, not structurally"],
        tests=[
            dict(name="TestC11Valid", quick=dict(checks=60000, timeout=300), thorough=dict(checks=400000, shards=16, timeout=1500)),
            dict(name="TestC11Reject", quick=dict(checks=30000, timeout=300), thorough=dict(checks=200000, shards=8, timeout=1500)),
            dict(name="TestC11Mutants", quick=dict(checks=60000, timeout=300), thorough=dict(checks=400000, shards=16, timeout=1500)),
            dict(name="FuzzC11", quick=dict(skip=True), thorough=dict(fuzz="300s", timeout=600, procs=16)),
        ]),
}
