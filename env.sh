export GOFLAGS=-mod=mod GOPROXY=off GOSUMDB=off GOTOOLCHAIN=local
