#!/usr/bin/env python3
"""Regenerate MANIFEST.json from vchecks.py (single source of truth for the per-property configuration)."""
import json, os, subprocess, sys
sys.path.insert(0, os.path.dirname(os.path.abspath(__file__)))
from vchecks import CHECKS, NOT_APPLICABLE

ids = [json.loads(l)["id"] for l in open("/verif/properties.jsonl")]
hook_commits = []
try:
    out = subprocess.run(["git", "-C", "/repo", "log", "--format=%H %s"], capture_output=True, text=True).stdout
    hook_commits = [l.split()[0] for l in out.splitlines() if " verif-hooks:" in l or l.split(" ", 1)[1].startswith("hooks:")]
except Exception:
    pass
checks = []
for pid in ids:
    if pid not in CHECKS:
        continue
    c = CHECKS[pid]
    checks.append({
        "property_id": pid,
        "quick_cmd": "./vcheck %s quick" % pid,
        "thorough_cmd": "./vcheck %s thorough" % pid,
        "evidence_file": "/verif/evidence/%s.json" % pid,
        "replay_cmd_template": "./vcheck replay {path}",
        "engine": "rapid",
        "technique": c["technique"],
        "level_claimed": {"category": c.get("level", "exploration"), "text": c["level_text"], "design_ref": "DESIGN.md section 4, " + pid},
        "level_note": c["level_note"],
    })
na = []
for pid in ids:
    if pid in CHECKS:
        continue
    na.append({"property_id": pid, "reason": NOT_APPLICABLE.get(pid, "check not built yet (work in progress in this round); see DESIGN.md section 4 for the planned generated check")})
m = {
    "version": 1,
    "setup_cmd": "./vcheck setup",
    "hooks": {
        "guard": "verif",
        "enable": "every check builds /repo through the harness module with `go build -tags verif` / `go test -c -tags verif`",
        "baseline_off_cmd": "cd /repo && go test -json -vet=off -count=1 -timeout 25m ./...",
        "source_commits": hook_commits,
        "add_only": True,
    },
    "engines": [{"name": "rapid", "path": "harness/", "serves_properties": [c["property_id"] for c in checks],
                 "kind_free_text": "pgregory.net/rapid v1.3.0 property-based testing (generators, t.Repeat state machines, shrinking) driving in-process packages, the real client binaries and an in-process server built from /repo; Go native fuzzing (go test -fuzz) in the thorough tier for byte-level targets; small-scope exhaustive enumeration where the space is finite"}],
    "checks": checks,
    "not_applicable": na,
    "notes": "Driver: ./vcheck <ID> quick|thorough; exit 0 held / 1 VIOLATION / 2 inconclusive. VERIF_SEED is mapped to -rapid.seed (0 -> 1; shard i of VERIF_SEED s uses s*2^43 + i*2^37 + 1, because rapid derives case k from seed + k(k+1)/2). known_findings.txt lists repaired (fixed:) and open (known:) genuine defects.",
}
json.dump(m, open("/verif/MANIFEST.json", "w"), indent=1)
print("MANIFEST.json written: %d checks, %d not_applicable" % (len(checks), len(na)))
