package c01

import (
	"bytes"
	"compress/gzip"
	"fmt"
	"os"
	"path/filepath"
	"regexp"
	"sync"
	"testing"
	"time"

	"github.com/DataDog/zstd"
	"github.com/mimecast/dtail/verif/gen"
	"github.com/mimecast/dtail/verif/lib"
	"github.com/mimecast/dtail/verif/model"
	"pgregory.net/rapid"
)

var (
	root    string
	home    string
	userKey lib.KeyPair
	srvMu   sync.Mutex
	servers = map[int]*lib.Server{}
	keyPath string
)

func TestMain(m *testing.M) {
	lib.Main(m, func() {
		cwd, _ := os.Getwd()
		root, _ = os.MkdirTemp(cwd, "c01-")
		home = filepath.Join(root, "home")
		os.MkdirAll(home, 0o755)
		userKey = lib.NewKeyPair("tester")
	})
	// not reached (lib.Main exits); servers die with the process (Pdeathsig / stdin EOF)
}

func serverFor(m int) (*lib.Server, error) {
	srvMu.Lock()
	defer srvMu.Unlock()
	if s, ok := servers[m]; ok && s.Alive() {
		return s, nil
	}
	s, err := lib.StartServer(lib.ServerOpts{
		Dir: filepath.Join(root, fmt.Sprintf("srv-%d", m)), Label: fmt.Sprintf("srv%d", m),
		Cfg:   lib.ServerCfg{MaxLineLength: m, MaxConcurrentCats: 4},
		Users: map[string][]string{"tester": {userKey.Authorized}},
	})
	if err != nil {
		return nil, err
	}
	servers[m] = s
	var all []*lib.Server
	for _, x := range servers {
		all = append(all, x)
	}
	keyPath, err = lib.ClientHome(home, userKey, all...)
	return s, err
}

type catCase struct {
	M           int
	Content     []byte
	Compression string // "", .gz, .gzip, .zst
	SSH         bool
	LogError    bool // pass --logLevel error (what the repository's own dcat tests do)
	Clean       bool // generated from the clean domain (known-finding triggers excluded by construction)
	Classes     []string
	// Poison (SSH only): before the file is read, the same server process is asked for a damaged compressed file (cut in
	// the middle of a line), so that the read of the healthy file follows a read that ended in an error
	Poison string `json:",omitempty"` // "" | .gz | .zst
}

var mValues = []int{8, 8, 64, 64, 1024, 4096, 40000, 1048576}

func genCat(ssh bool, clean bool) func(t *rapid.T) catCase {
	return func(t *rapid.T) catCase {
		m := rapid.SampledFrom(mValues).Draw(t, "M")
		c := gen.GenContent(gen.ContentOpts{M: m, NoAC: clean, BigRuns: true}).Draw(t, "content")
		cc := catCase{M: m, Content: c.Data, SSH: ssh, Clean: clean, Classes: c.Classes,
			Compression: rapid.SampledFrom([]string{"", "", "", ".gz", ".gzip", ".zst"}).Draw(t, "compression"),
			LogError:    rapid.Bool().Draw(t, "logerror")}
		if clean {
			cc.Content = cleanDots(cc.Content, m)
		}
		if ssh {
			cc.Poison = rapid.SampledFrom([]string{"", "", ".gz", ".zst"}).Draw(t, "poison")
		}
		return cc
	}
}

// cleanDots rewrites the content so that no piece of the expected output starts with '.'.
func cleanDots(content []byte, m int) []byte {
	for iter := 0; iter < 4; iter++ {
		changed := false
		out := append([]byte(nil), content...)
		// positions in content where an output piece starts
		run := 0
		atStart := true
		for i, b := range out {
			if atStart && b == '.' {
				out[i] = ','
				changed = true
			}
			atStart = false
			if b == '\n' {
				run = 0
				atStart = true
				continue
			}
			run++
			if run == m {
				run = 0
				atStart = true
			}
		}
		content = out
		if !changed {
			break
		}
	}
	return content
}

func compress(content []byte, kind string) ([]byte, error) {
	switch kind {
	case ".gz", ".gzip":
		var b bytes.Buffer
		w := gzip.NewWriter(&b)
		w.Write(content)
		w.Close()
		return b.Bytes(), nil
	case ".zst":
		return zstd.Compress(nil, content)
	}
	return content, nil
}

// clientView models what the (known-defective) framing does to the expected stream: the stream
// is cut into messages after every '\n' and at every 0xAC byte (which is consumed), and a message
// starting with '.' is not printed. It is used ONLY as the signature of known findings F1/F2.
func clientView(expected []byte) (out []byte, sawSyn bool) {
	var msg []byte
	flush := func() {
		if len(msg) > 0 && msg[0] == '.' {
			if bytes.HasPrefix(msg, []byte(".syn close connection")) {
				sawSyn = true
			}
		} else {
			out = append(out, msg...)
		}
		msg = msg[:0]
	}
	for _, b := range expected {
		switch b {
		case '\n':
			msg = append(msg, b)
			flush()
		case 0xAC:
			flush()
		default:
			msg = append(msg, b)
		}
		if sawSyn {
			return
		}
	}
	flush()
	return
}

var nCase int
var nMu sync.Mutex

func evalCat(c catCase) lib.Outcome {
	var o lib.Outcome
	expected := model.SplitLong(c.Content, c.M)
	pieces := model.Pieces(expected)
	hasAC := bytes.IndexByte(c.Content, 0xAC) >= 0
	hasDot, hasLong, has32k := false, false, false
	for _, p := range pieces {
		if len(p) > 0 && p[0] == '.' {
			hasDot = true
		}
		if len(p) > 32*1024-8 {
			has32k = true
		}
	}
	if len(expected) != len(c.Content) {
		hasLong = true
	}
	o.Classes = append([]string{fmt.Sprintf("M=%d", c.M), "compression=" + c.Compression}, c.Classes...)
	if hasLong {
		o.Classes = append(o.Classes, "run>=M")
	}
	if has32k {
		o.Classes = append(o.Classes, "piece>32KiB")
	}
	if c.SSH {
		o.Classes = append(o.Classes, "ssh")
	} else {
		o.Classes = append(o.Classes, "serverless")
	}
	o.NonTrivial = len(c.Classes) > 0 || hasLong || c.Compression != ""

	nMu.Lock()
	nCase++
	id := nCase
	nMu.Unlock()
	dir := filepath.Join(root, fmt.Sprintf("case-%d", id%64))
	os.RemoveAll(dir)
	os.MkdirAll(dir, 0o755)
	file := filepath.Join(dir, "input.log"+c.Compression)
	data, err := compress(c.Content, c.Compression)
	if err != nil {
		return lib.Outcome{Inconclusive: err.Error()}
	}
	if err := os.WriteFile(file, data, 0o644); err != nil {
		return lib.Outcome{Inconclusive: err.Error()}
	}
	defer os.RemoveAll(dir)

	var args []string
	var label string
	if c.SSH {
		s, err := serverFor(c.M)
		if err != nil {
			return lib.Outcome{Inconclusive: "server: " + err.Error()}
		}
		label = s.Label
		args = []string{"--plain", "--servers", s.Addr(), "--user", "tester", "--key", keyPath}
	} else {
		cfg := filepath.Join(dir, "dtail.json")
		lib.WriteCfg(cfg, lib.ServerCfg{MaxLineLength: c.M})
		args = []string{"--plain", "--cfg", cfg}
	}
	if c.LogError {
		args = append(args, "--logLevel", "error")
	}
	if c.SSH && c.Poison != "" {
		// 400 lines of 60 pseudo-random printable bytes compress badly, so half of the compressed bytes end inside a line
		var raw bytes.Buffer
		x := uint32(id)*2654435761 + 12345
		for i := 0; i < 400; i++ {
			for j := 0; j < 60; j++ {
				x = x*1664525 + 1013904223
				raw.WriteByte(byte('!' + (x>>24)%90))
			}
			raw.WriteByte('\n')
		}
		if damaged, err := compress(raw.Bytes(), c.Poison); err == nil && len(damaged) > 200 {
			bad := filepath.Join(dir, "damaged.log"+c.Poison)
			os.WriteFile(bad, damaged[:len(damaged)/2], 0o644)
			lib.RunClient("dcat", append(append([]string{}, args...), bad), lib.RunOpts{Home: home, Timeout: 30 * time.Second})
			o.Classes = append(o.Classes, "after-failed-read"+c.Poison)
		}
	}
	args = append(args, file)
	r := lib.RunClient("dcat", args, lib.RunOpts{Home: home, Timeout: 90 * time.Second})
	if r.TimedOut {
		o.Fail = "dcat did not terminate within 90s"
		return o
	}
	got := r.Stdout
	if r.Exit == 0 && bytes.Equal(got, expected) {
		return o
	}
	// ---- not byte-exact: classify
	o.Expected = clip(expected)
	o.Observed = clip(got)
	o.Fail = fmt.Sprintf("dcat --plain output differs from the file (M=%d, %d content bytes, compression %q, ssh=%v, exit=%d): got %d bytes, want %d; first difference at offset %d; stderr=%q",
		c.M, len(c.Content), c.Compression, c.SSH, r.Exit, len(got), len(expected), firstDiff(got, expected), clipS(r.Stderr))
	if r.Exit != 0 {
		return o
	}
	// F4: long-line warning records printed on plain stdout
	stripped := got
	if hasLong {
		var re *regexp.Regexp
		if c.SSH {
			re = regexp.MustCompile(`SERVER\|` + regexp.QuoteMeta(label) + `\|WARN\|[0-9]{4}-[0-9]{6}\|` + regexp.QuoteMeta(file) + `\|Long log line, splitting into multiple lines\n`)
		} else {
			re = regexp.MustCompile(`CLIENT\|[^|\n]*\|WARN\|` + regexp.QuoteMeta(file) + `\|Long log line, splitting into multiple lines\n`)
		}
		stripped = re.ReplaceAll(got, nil)
		if !bytes.Equal(stripped, got) && bytes.Equal(stripped, expected) {
			o.KnownKey = "longline-warn-on-stdout"
			return o
		}
	}
	// F1 / F2: framing
	if hasAC || hasDot {
		view, sawSyn := clientView(expected)
		match := bytes.Equal(stripped, view)
		if sawSyn && !match {
			match = bytes.HasPrefix(view, stripped) || bytes.HasPrefix(stripped, view)
		}
		if match {
			if hasAC {
				o.KnownKey = "delim-0xac"
			} else {
				o.KnownKey = "leading-dot"
			}
			return o
		}
	}
	return o
}

func firstDiff(a, b []byte) int {
	n := len(a)
	if len(b) < n {
		n = len(b)
	}
	for i := 0; i < n; i++ {
		if a[i] != b[i] {
			return i
		}
	}
	return n
}

func clip(b []byte) string {
	if len(b) > 600 {
		return fmt.Sprintf("%q...(%d bytes)", b[:600], len(b))
	}
	return fmt.Sprintf("%q", b)
}

func clipS(b []byte) string {
	if len(b) > 300 {
		b = b[len(b)-300:]
	}
	return string(b)
}

const rule = "file content = 0..300 line segments from weighted classes (empty, ASCII, arbitrary bytes, hazard tokens at start/middle/end, runs of M-1/M/M+1/2M/2M+1 and of 32767..100000 bytes, odd UTF-8) with/without final newline x MaxLineLength in {8,64,1024,4096,40000,1048576} x {plain,.gz,.gzip,.zst} x --logLevel error on/off; oracle: stdout == SplitLong(decompressed, M) byte for byte, exit 0; non-trivial = a hazard class, a run >= M, or compression; distinct by (content, M, compression, transport)"

func sampleOf(c catCase) interface{} {
	return map[string]interface{}{"M": c.M, "bytes": len(c.Content), "compression": c.Compression, "ssh": c.SSH, "classes": c.Classes, "head": clip(c.Content[:min(len(c.Content), 80)])}
}

func min(a, b int) int {
	if a < b {
		return a
	}
	return b
}

func TestC01Serverless(t *testing.T) {
	lib.Run(t, lib.Spec[catCase]{Prop: "C01", Check: "serverless-clean", Rule: "clean domain (0xAC and leading '.' excluded by construction): " + rule,
		Gen: genCat(false, true), Eval: evalCat, SampleOf: sampleOf})
}

func TestC01ServerlessFull(t *testing.T) {
	lib.Run(t, lib.Spec[catCase]{Prop: "C01", Check: "serverless-full", Rule: "full domain incl. known-finding triggers: " + rule,
		Gen: genCat(false, false), Eval: evalCat, SampleOf: sampleOf})
}

func TestC01SSH(t *testing.T) {
	lib.Run(t, lib.Spec[catCase]{Prop: "C01", Check: "ssh-clean", Rule: "through a server over SSH, clean domain: " + rule,
		Gen: genCat(true, true), Eval: evalCat, SampleOf: sampleOf})
}

func TestC01SSHFull(t *testing.T) {
	lib.Run(t, lib.Spec[catCase]{Prop: "C01", Check: "ssh-full", Rule: "through a server over SSH, full domain: " + rule,
		Gen: genCat(true, false), Eval: evalCat, SampleOf: sampleOf})
}

// Witnesses: one fixed input per known finding, so that the KNOWN-FINDING line appears (and disappears once repaired).
func TestC01Witness(t *testing.T) {
	rec := lib.NewRec("C01", "witness", "fixed witness inputs, one per known finding")
	defer rec.Flush()
	for _, w := range []struct {
		key string
		c   catCase
	}{
		{"delim-0xac", catCase{M: 1024, Content: []byte("price 5€ ok\nnext\n")}},
		{"leading-dot", catCase{M: 1024, Content: []byte("first\n.hidden line\nlast\n")}},
		{"longline-warn-on-stdout", catCase{M: 8, Content: []byte("0123456789abcdef\nshort\n")}},
		{"longline-warn-on-stdout", catCase{M: 8, Content: []byte("0123456789abcdef\nshort\n"), SSH: true}},
	} {
		w := w
		lib.Witness(t, rec, "C01", w.key, w.c, func() lib.Outcome { o := evalCat(w.c); rec.Case(lib.Canon(w.c), true); return o })
	}
}
