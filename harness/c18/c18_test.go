package c18

import (
	"fmt"
	"os"
	"path/filepath"
	"regexp"
	"sort"
	"strings"
	"syscall"
	"testing"
	"time"

	"github.com/mimecast/dtail/internal/discovery"
	"github.com/mimecast/dtail/verif/lib"
	"pgregory.net/rapid"
)

var scratch string

func TestMain(m *testing.M) {
	lib.Main(m, func() {
		lib.InitDtailClient()
		scratch, _ = os.MkdirTemp("", "c18-")
	})
}

type listCase struct {
	Entries      []string
	Form         string // comma | file | file-nonl | module
	Filter       string // regex without the slashes, "" = none (only with Form module)
	FilterOnList bool   // filter given with comma form (documented to filter a module's list; here: no module)
}

func hostGen() *rapid.Generator[string] {
	return rapid.OneOf(
		rapid.StringMatching(`[a-z0-9][a-z0-9.-]{0,19}`),
		rapid.StringMatching(`[a-c]{1,2}`),
		rapid.StringMatching(`[a-z]{1,8}[0-9]{1,3}\.(dc1|dc2|lan)\.example\.org`),
		rapid.StringMatching(`[a-z]{1,6}[0-9]?:(22|2222|[0-9]{2,5})`),
		rapid.StringMatching(`(10|192)\.[0-9]{1,3}\.[0-9]{1,3}\.[0-9]{1,3}(:2222)?`),
	)
}

func genList(t *rapid.T) listCase {
	var c listCase
	c.Form = rapid.SampledFrom([]string{"comma", "file", "file-nonl", "module", "module", "fifo"}).Draw(t, "form")
	size := rapid.SampledFrom([]int{1, 2, 3, 5, 10, 40, 200, 1000, 3000}).Draw(t, "size")
	n := rapid.IntRange(1, size).Draw(t, "n")
	dupPct := rapid.SampledFrom([]int{0, 10, 50, 90}).Draw(t, "dup")
	pool := rapid.SliceOfN(hostGen(), 1, 40).Draw(t, "pool")
	for i := 0; i < n; i++ {
		if len(c.Entries) > 0 && rapid.IntRange(0, 99).Draw(t, "isdup") < dupPct {
			c.Entries = append(c.Entries, c.Entries[rapid.IntRange(0, len(c.Entries)-1).Draw(t, "dupidx")])
			continue
		}
		if i < len(pool) || rapid.Bool().Draw(t, "frompool") {
			c.Entries = append(c.Entries, pool[rapid.IntRange(0, len(pool)-1).Draw(t, "pi")])
		} else {
			c.Entries = append(c.Entries, fmt.Sprintf("h%d.example.org", rapid.IntRange(0, 5000).Draw(t, "hn")))
		}
	}
	if c.Form == "module" && rapid.IntRange(0, 4).Draw(t, "hasfilter") > 0 {
		c.Filter = rapid.OneOf(
			rapid.SampledFrom([]string{"^a", "1$", "dc1", "^[a-m]", `\.example\.org$`, ":2222$", `^10\.`, "a|b", "(?i)DC2", ".", "", "^$", `\d+`, "[[:alpha:]]+[0-9]", "a/b", "x{2,}",
				// filters that match every name with an empty match, or with an empty match at some position
				"^", "$", "x*", "(dc1)?", `\d*`, "(?i)", "^(web|db)?", "(:[0-9]+)?$", `\b`}),
			rapid.StringMatching(`\^?[a-d0-9.]{1,3}\$?`),
		).Filter(func(s string) bool { _, err := regexp.Compile(s); return err == nil }).Draw(t, "filter")
		if c.Filter == "" {
			c.Filter = "."
		}
	}
	return c
}

func evalList(c listCase) lib.Outcome {
	var o lib.Outcome
	// expected: the set of distinct entries matching the filter
	want := map[string]bool{}
	var re *regexp.Regexp
	if c.Filter != "" {
		re = regexp.MustCompile(c.Filter)
	}
	distinct := map[string]bool{}
	for _, e := range c.Entries {
		distinct[e] = true
		if re == nil || re.MatchString(e) {
			want[e] = true
		}
	}
	hasDup := len(distinct) < len(c.Entries)
	o.NonTrivial = (len(distinct) >= 2 && hasDup) || (re != nil && len(want) > 0 && len(want) < len(distinct))
	o.Classes = []string{"form=" + c.Form, fmt.Sprintf("size<=%d", bucket(len(c.Entries)))}
	if hasDup {
		o.Classes = append(o.Classes, "duplicates")
	}
	if re != nil {
		switch {
		case len(want) == 0:
			o.Classes = append(o.Classes, "filter-keeps-none")
		case len(want) == len(distinct):
			o.Classes = append(o.Classes, "filter-keeps-all")
		default:
			o.Classes = append(o.Classes, "filter-keeps-proper-subset")
		}
	}

	var d func() *discovery.Discovery
	switch c.Form {
	case "comma":
		s := strings.Join(c.Entries, ",")
		d = func() *discovery.Discovery { return discovery.New("", s, discovery.Shuffle) }
	case "fifo":
		// the server file is a named pipe (what --servers <(generator) or a mkfifo'd inventory gives): each call gets the
		// list written to it once
		p := filepath.Join(scratch, fmt.Sprintf("servers-fifo-%d-%d", os.Getpid(), time.Now().UnixNano()))
		if err := syscall.Mkfifo(p, 0o644); err != nil {
			return lib.Outcome{Inconclusive: err.Error()}
		}
		defer os.Remove(p)
		body := strings.Join(c.Entries, "\n") + "\n"
		d = func() *discovery.Discovery {
			go func() {
				if w, err := os.OpenFile(p, os.O_WRONLY, 0); err == nil {
					w.WriteString(body)
					w.Close()
				}
			}()
			return discovery.New("", p, discovery.Shuffle)
		}
	case "file", "file-nonl", "module":
		f, err := os.CreateTemp(scratch, "servers-")
		if err != nil {
			return lib.Outcome{Inconclusive: err.Error()}
		}
		body := strings.Join(c.Entries, "\n")
		if c.Form != "file-nonl" {
			body += "\n"
		}
		f.WriteString(body)
		f.Close()
		defer os.Remove(f.Name())
		if c.Form == "module" {
			srv := ""
			if c.Filter != "" {
				srv = "/" + c.Filter + "/"
			}
			d = func() *discovery.Discovery { return discovery.New("verif:"+f.Name(), srv, discovery.Shuffle) }
		} else {
			d = func() *discovery.Discovery { return discovery.New("", f.Name(), discovery.Shuffle) }
		}
	}
	wantSorted := keys(want)
	for round := 0; round < 3; round++ {
		got := d().ServerList()
		gs := append([]string(nil), got...)
		sort.Strings(gs)
		if strings.Join(gs, "\x00") != strings.Join(wantSorted, "\x00") {
			o.Fail = fmt.Sprintf("round %d: server list (sorted) has %d entries, want %d distinct wanted entries", round, len(gs), len(wantSorted))
			o.Expected, o.Observed = clip(wantSorted), clip(gs)
			return o
		}
	}
	return o
}

func clip(s []string) []string {
	if len(s) > 40 {
		return append(append([]string(nil), s[:40]...), "...")
	}
	return s
}

func bucket(n int) int {
	for _, b := range []int{1, 3, 10, 100, 1000} {
		if n <= b {
			return b
		}
	}
	return 3000
}

func keys(m map[string]bool) []string {
	var k []string
	for s := range m {
		k = append(k, s)
	}
	sort.Strings(k)
	return k
}

func TestC18Random(t *testing.T) {
	lib.Run(t, lib.Spec[listCase]{
		Prop: "C18", Check: "random",
		Rule: "server lists of 1..3000 host[:port] entries with 0-90% duplicates, given as comma list, server file (with/without final newline), named pipe, or through the VERIF plug-in module with an optional /regex/ filter; ServerList() called 3 times; non-trivial = (>=2 distinct entries and >=1 duplicate) or a filter keeping a proper non-empty subset; distinct by (entries, form, filter)",
		Gen:  genList, Eval: evalList,
		SampleOf: func(c listCase) interface{} {
			return map[string]interface{}{"form": c.Form, "filter": c.Filter, "n": len(c.Entries), "entries": clip(c.Entries)}
		},
	})
}

// Exhaustive: every list of length 0..N over a 3-letter alphabet, all four forms, filter ^a.
func TestC18Exhaustive(t *testing.T) {
	maxLen := 7
	if lib.Thorough() {
		maxLen = 10
	}
	alphabet := []string{"a", "b", "ab"}
	spec := lib.Spec[listCase]{
		Prop: "C18", Check: "exhaustive",
		Rule: fmt.Sprintf("every list of length 1..%d over the alphabet {a,b,ab} x forms {comma,file,file-nonl,module,module+/^a/,module+/b$/}; non-trivial as above", maxLen),
		Eval: evalList,
	}
	rec := lib.RunFixed(t, spec, func(yield func(listCase) bool) {
		var rec func(cur []string)
		stop := false
		rec = func(cur []string) {
			if stop {
				return
			}
			if len(cur) > 0 {
				for _, form := range []struct{ f, re string }{{"comma", ""}, {"file", ""}, {"file-nonl", ""}, {"module", ""}, {"module", "^a"}, {"module", "b$"}} {
					if len(cur) > 6 && (form.f == "file" || form.f == "file-nonl") {
						continue // file forms: lengths up to 6 (one temp file per case)
					}
					if !yield(listCase{Entries: append([]string(nil), cur...), Form: form.f, Filter: form.re}) {
						stop = true
						return
					}
				}
			}
			if len(cur) == maxLen {
				return
			}
			for _, a := range alphabet {
				rec(append(cur, a))
			}
		}
		rec(nil)
	})
	rec.SetExhaustive(true)
	_ = filepath.Join
}
