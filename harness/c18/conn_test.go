package c18

import (
	"fmt"
	"net"
	"os"
	"path/filepath"
	"sort"
	"strings"
	"sync"
	"testing"
	"time"

	"github.com/mimecast/dtail/verif/lib"
	"pgregory.net/rapid"
)

// connCase: the real client binaries against harness-owned TCP listeners which accept and hang up (the SSH
// handshake fails), so that the retrying client (dtail) reconnects every 2 s and the others give up. What is
// observed is the statement's second observation point: the connections a client attempts.
type connCase struct {
	Client   string   // dcat | dgrep | dtail (dtail retries)
	Form     string   // comma | file
	Entries  []string // host:port / host entries in list order, duplicates included; %d placeholders resolved at run time
	Slots    []int    // per entry: index of the listener port it names, -1 = no port (default port)
	Hosts    []string // per entry: host part
	NPorts   int      // listeners
	RunSecs  int      // dtail: how long the client is left running
}

func genConn(t *rapid.T) connCase {
	var c connCase
	c.Client = rapid.SampledFrom([]string{"dcat", "dgrep", "dtail", "dtail", "dtail"}).Draw(t, "client")
	c.Form = rapid.SampledFrom([]string{"comma", "file"}).Draw(t, "form")
	c.NPorts = rapid.IntRange(1, 4).Draw(t, "nports")
	n := rapid.IntRange(1, 6).Draw(t, "n")
	for i := 0; i < n; i++ {
		if i > 0 && rapid.IntRange(0, 3).Draw(t, "dup") == 0 {
			j := rapid.IntRange(0, i-1).Draw(t, "dupidx")
			c.Slots = append(c.Slots, c.Slots[j])
			c.Hosts = append(c.Hosts, c.Hosts[j])
			continue
		}
		slot := rapid.IntRange(0, c.NPorts-1).Draw(t, "slot")
		if rapid.IntRange(0, 5).Draw(t, "noport") == 0 {
			slot = -1
		}
		c.Slots = append(c.Slots, slot)
		c.Hosts = append(c.Hosts, rapid.SampledFrom([]string{"127.0.0.1", "127.0.0.2", "127.0.0.1", "localhost"}).Draw(t, "host"))
	}
	c.RunSecs = rapid.SampledFrom([]int{5, 5, 7}).Draw(t, "secs")
	return c
}

type hit struct {
	ip   string
	port int
}

func evalConn(c connCase) lib.Outcome {
	var o lib.Outcome
	var mu sync.Mutex
	hits := map[hit]int{}
	var lns []net.Listener
	defer func() {
		for _, l := range lns {
			l.Close()
		}
	}()
	listen := func() (int, error) {
		l, err := net.Listen("tcp4", "0.0.0.0:0")
		if err != nil {
			return 0, err
		}
		lns = append(lns, l)
		port := l.Addr().(*net.TCPAddr).Port
		go func() {
			for {
				conn, err := l.Accept()
				if err != nil {
					return
				}
				ip := conn.LocalAddr().(*net.TCPAddr).IP.String()
				mu.Lock()
				hits[hit{ip, port}]++
				mu.Unlock()
				conn.Close()
			}
		}()
		return port, nil
	}
	ports := make([]int, c.NPorts)
	for i := range ports {
		p, err := listen()
		if err != nil {
			return lib.Outcome{Inconclusive: err.Error()}
		}
		ports[i] = p
	}
	defPort, err := listen() // the configured default SSH port (--port): wanted only by entries without a port
	if err != nil {
		return lib.Outcome{Inconclusive: err.Error()}
	}

	// the list as given, and the oracle: distinct entries, each mapped to the address it denotes
	var entries []string
	distinct := map[string]hit{}
	for i, s := range c.Slots {
		e, port := c.Hosts[i], defPort
		if s >= 0 {
			port = ports[s]
			e = fmt.Sprintf("%s:%d", c.Hosts[i], port)
		}
		entries = append(entries, e)
		ip := c.Hosts[i]
		if ip == "localhost" {
			ip = "127.0.0.1"
		}
		distinct[e] = hit{ip, port}
	}
	want := map[hit]int{}
	for _, h := range distinct {
		want[h]++
	}

	home, err := os.MkdirTemp(scratch, "conn-")
	if err != nil {
		return lib.Outcome{Inconclusive: err.Error()}
	}
	defer os.RemoveAll(home)
	keyPath, err := lib.ClientHome(home, connKey)
	if err != nil {
		return lib.Outcome{Inconclusive: err.Error()}
	}
	servers := strings.Join(entries, ",")
	if c.Form == "file" {
		servers = filepath.Join(home, "servers.txt")
		os.WriteFile(servers, []byte(strings.Join(entries, "\n")+"\n"), 0o644)
	}
	args := []string{"--servers", servers, "--port", fmt.Sprint(defPort), "--user", "tester", "--key", keyPath, "--trustAllHosts",
		"--files", "/nonexistent/x.log", "--logLevel", "error"}
	if c.Client != "dtail" {
		args = append(args, "--plain")
	}
	timeout := 30 * time.Second
	if c.Client == "dtail" {
		timeout = time.Duration(c.RunSecs)*time.Second + 500*time.Millisecond
	}
	r := lib.RunClient(c.Client, args, lib.RunOpts{Home: home, Timeout: timeout})
	time.Sleep(50 * time.Millisecond)
	mu.Lock()
	got := map[hit]int{}
	for h, n := range hits {
		got[h] = n
	}
	mu.Unlock()

	retry := c.Client == "dtail"
	maxRounds := 1
	if retry {
		maxRounds = int(r.Wall/(2*time.Second)) + 1
	}
	hasDup := len(distinct) < len(entries)
	noPort := false
	for _, s := range c.Slots {
		if s < 0 {
			noPort = true
		}
	}
	rounds := 0
	for h, w := range want {
		if k := got[h] / w; rounds == 0 || k < rounds {
			rounds = k
		}
	}
	o.NonTrivial = len(distinct) >= 2 || hasDup || (retry && rounds >= 2)
	o.Classes = []string{"conn-client=" + c.Client, "conn-form=" + c.Form, fmt.Sprintf("conn-rounds=%d", rounds)}
	if hasDup {
		o.Classes = append(o.Classes, "conn-duplicates")
	}
	if noPort {
		o.Classes = append(o.Classes, "conn-entry-without-port")
	}
	if !retry && r.TimedOut {
		return lib.Outcome{Inconclusive: "client did not end within 30 s", Classes: o.Classes}
	}
	render := func(m map[hit]int) []string {
		var s []string
		for h, n := range m {
			s = append(s, fmt.Sprintf("%s:%d x%d", h.ip, h.port, n))
		}
		sort.Strings(s)
		return s
	}
	fail := func(what string) lib.Outcome {
		o.Fail = what
		o.Expected = map[string]interface{}{"entries": entries, "per_round": render(want), "max_rounds": maxRounds}
		o.Observed = map[string]interface{}{"connections": render(got), "wall": r.Wall.String(), "exit": r.Exit, "stderr": tailStr(r.Stderr)}
		return o
	}
	for h, n := range got {
		w, ok := want[h]
		if !ok {
			return fail(fmt.Sprintf("the client contacted %s:%d (%d times), which no entry of the list denotes", h.ip, h.port, n))
		}
		if n > w*maxRounds {
			return fail(fmt.Sprintf("%s:%d was contacted %d times; %d distinct entr(ies) denote it and the client made at most %d round(s)", h.ip, h.port, n, w, maxRounds))
		}
	}
	for h, w := range want {
		if got[h] < w {
			return fail(fmt.Sprintf("%s:%d is denoted by %d distinct entr(ies) but was contacted %d times", h.ip, h.port, w, got[h]))
		}
	}
	return o
}

func tailStr(b []byte) string {
	if len(b) > 600 {
		b = b[len(b)-600:]
	}
	return string(b)
}

var connKey lib.KeyPair

func TestC18Connections(t *testing.T) {
	connKey = lib.NewKeyPair("c18")
	lib.Run(t, lib.Spec[connCase]{
		Prop: "C18", Check: "connections",
		Rule: "1..6 entries host:port / host (hosts 127.0.0.1, 127.0.0.2, localhost; 1..4 harness listeners plus one on the configured default port; duplicates) given as comma list or server file to the real dcat/dgrep/dtail binaries; every listener hangs up at once, dtail (retry mode) is left running 5-7 s so that it reconnects; observed = TCP connections per (address, port); non-trivial = >= 2 distinct entries, a duplicate, or >= 2 connection rounds",
		Gen:  genConn, Eval: evalConn,
		SampleOf: func(c connCase) interface{} {
			return map[string]interface{}{"client": c.Client, "form": c.Form, "slots": c.Slots, "hosts": c.Hosts}
		},
	})
}
