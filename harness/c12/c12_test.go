package c12

import (
	"bytes"
	"fmt"
	"os"
	"path/filepath"
	"regexp"
	"strings"
	"sync"
	"testing"
	"time"

	"github.com/mimecast/dtail/internal/config"
	"github.com/mimecast/dtail/internal/lcontext"
	"github.com/mimecast/dtail/internal/regex"
	"github.com/mimecast/dtail/verif/gen"
	"github.com/mimecast/dtail/verif/lib"
	"github.com/mimecast/dtail/verif/model"
	"pgregory.net/rapid"
)

var (
	root, home, keyPath string
	userKey             lib.KeyPair
	srv                 *lib.Server
	srvMu               sync.Mutex
)

func TestMain(m *testing.M) {
	lib.Main(m, func() {
		lib.InitDtailClient()
		cwd, _ := os.Getwd()
		root, _ = os.MkdirTemp(cwd, "c12-")
		home = filepath.Join(root, "home")
		os.MkdirAll(home, 0o755)
		userKey = lib.NewKeyPair("tester")
	})
}

func server() (*lib.Server, error) {
	srvMu.Lock()
	defer srvMu.Unlock()
	if srv != nil && srv.Alive() {
		return srv, nil
	}
	s, err := lib.StartServer(lib.ServerOpts{Dir: filepath.Join(root, "srv"), Label: "srvc12", Cfg: lib.ServerCfg{MaxConcurrentCats: 4},
		Users: map[string][]string{"tester": {userKey.Authorized}}})
	if err != nil {
		return nil, err
	}
	srv = s
	keyPath, err = lib.ClientHome(home, userKey, s)
	return s, err
}

// ---- end to end -------------------------------------------------------------------

type e2eCase struct {
	Pattern string
	Invert  bool
	Before  int
	After   int
	Max     int
	Mode    string // plain | nocolor | quiet
	UseGrep bool   // --grep alias instead of --regex
	Lines   [][]byte
	FinalNL bool
	SSH     bool
}

var splitterChars = " :;,%=|"

func genE2E(ssh bool) func(t *rapid.T) e2eCase {
	return func(t *rapid.T) e2eCase {
		p := gen.Regex().Filter(func(p gen.Pattern) bool { return p.Expr != "" && len(p.Expr) < 1024 }).Draw(t, "pattern")
		// lines: the pattern's alphabet without characters whose encoding contains 0xAC (known finding C01/delim-0xac)
		var alpha []string
		for _, a := range p.Alphabet {
			if !strings.Contains(a, "\xAC") {
				alpha = append(alpha, a)
			}
		}
		alpha = append(alpha, "ü", "日")
		p.Alphabet = alpha
		mode := rapid.SampledFrom([]string{"plain", "plain", "nocolor", "quiet"}).Draw(t, "mode")
		n := rapid.SampledFrom([]int{1, 3, 8, 30, 120}).Draw(t, "maxlines")
		lines := rapid.SliceOfN(rapid.Map(gen.LineFor(p), func(s string) []byte { return []byte(s) }), 1, n).Draw(t, "lines")
		for i := range lines {
			if mode == "plain" && len(lines[i]) > 0 && lines[i][0] == '.' {
				lines[i][0] = ',' // known finding C01/leading-dot
			}
		}
		ctxv := func(label string) int {
			switch rapid.IntRange(0, 7).Draw(t, label+"k") {
			case 0, 1, 2, 3:
				return 0
			case 4, 5:
				return rapid.IntRange(1, 4).Draw(t, label)
			case 6:
				return rapid.IntRange(5, 100000).Draw(t, label+"big")
			default:
				return -rapid.IntRange(1, 3).Draw(t, label+"neg")
			}
		}
		c := e2eCase{Pattern: p.Expr, Invert: rapid.IntRange(0, 3).Draw(t, "invert") == 0, Before: ctxv("before"), After: ctxv("after"), Max: ctxv("max"),
			Mode: mode, UseGrep: rapid.Bool().Draw(t, "usegrep"), Lines: lines, FinalNL: rapid.IntRange(0, 4).Draw(t, "finalnl") != 0, SSH: ssh}
		if last := c.Lines[len(c.Lines)-1]; len(last) == 0 {
			c.FinalNL = true
		}
		return c
	}
}

func isNoop(p string) bool { return p == "" || p == "." || p == ".*" }

var caseN int
var caseMu sync.Mutex

func evalE2E(c e2eCase) lib.Outcome {
	var o lib.Outcome
	if isNoop(c.Pattern) && c.Invert {
		return lib.Outcome{Skip: true}
	}
	re, err := regexp.Compile(c.Pattern)
	if err != nil {
		return lib.Outcome{Skip: true}
	}
	selected := make([]bool, len(c.Lines))
	pos, neg := false, false
	for i, l := range c.Lines {
		selected[i] = isNoop(c.Pattern) || (re.Match(l) != c.Invert)
		if selected[i] {
			pos = true
		} else {
			neg = true
		}
	}
	want := model.Grep(selected, c.Before, c.After, c.Max)
	special := strings.ContainsAny(c.Pattern, splitterChars)
	nonASCII := false
	for _, r := range c.Pattern {
		if r > 127 {
			nonASCII = true
		}
	}
	o.NonTrivial = (special || nonASCII) && pos && neg
	o.Classes = []string{"mode=" + c.Mode}
	for _, ch := range splitterChars {
		if strings.ContainsRune(c.Pattern, ch) {
			o.Classes = append(o.Classes, "pattern-has-"+fmt.Sprintf("%q", ch))
		}
	}
	if strings.Contains(c.Pattern, "  ") || strings.HasPrefix(c.Pattern, " ") || strings.HasSuffix(c.Pattern, " ") {
		o.Classes = append(o.Classes, "pattern-edge-spaces")
	}
	if nonASCII {
		o.Classes = append(o.Classes, "pattern-non-ascii")
	}
	if c.Invert {
		o.Classes = append(o.Classes, "invert")
	}
	if c.Before > 0 || c.After > 0 || c.Max > 0 {
		o.Classes = append(o.Classes, "context")
	}
	if pos && neg {
		o.Classes = append(o.Classes, "both-polarities")
	}
	if c.SSH {
		o.Classes = append(o.Classes, "ssh")
	}

	caseMu.Lock()
	caseN++
	id := caseN
	caseMu.Unlock()
	dir := filepath.Join(root, fmt.Sprintf("case-%d", id%64))
	os.RemoveAll(dir)
	os.MkdirAll(dir, 0o755)
	defer os.RemoveAll(dir)
	file := filepath.Join(dir, "in.log")
	var content bytes.Buffer
	for i, l := range c.Lines {
		content.Write(l)
		if i < len(c.Lines)-1 || c.FinalNL {
			content.WriteByte('\n')
		}
	}
	os.WriteFile(file, content.Bytes(), 0o644)

	var args []string
	switch c.Mode {
	case "plain":
		args = append(args, "--plain")
	case "nocolor":
		args = append(args, "--noColor")
	case "quiet":
		args = append(args, "--noColor", "--quiet")
	}
	if c.SSH {
		s, err := server()
		if err != nil {
			return lib.Outcome{Inconclusive: "server: " + err.Error()}
		}
		args = append(args, "--servers", s.Addr(), "--user", "tester", "--key", keyPath)
	}
	if c.Invert {
		args = append(args, "--invert")
	}
	if c.Before != 0 {
		args = append(args, "--before", fmt.Sprint(c.Before))
	}
	if c.After != 0 {
		args = append(args, "--after", fmt.Sprint(c.After))
	}
	if c.Max != 0 {
		args = append(args, "--max", fmt.Sprint(c.Max))
	}
	if c.UseGrep {
		args = append(args, "--grep", c.Pattern)
	} else {
		args = append(args, "--regex", c.Pattern)
	}
	args = append(args, "--logLevel", "error", file)
	r := lib.RunClient("dgrep", args, lib.RunOpts{Home: home, Timeout: 60 * time.Second})
	if r.TimedOut {
		o.Fail = fmt.Sprintf("dgrep %q did not terminate within 60s", args)
		return o
	}
	// expected output lines
	var wantLines [][]byte
	for _, i := range want {
		l := append([]byte(nil), c.Lines[i]...)
		if i < len(c.Lines)-1 || c.FinalNL {
			l = append(l, '\n')
		}
		wantLines = append(wantLines, l)
	}
	var got [][]byte
	modeOK := true
	if c.Mode == "plain" {
		got = model.Pieces(r.Stdout)
	} else {
		for _, rec := range model.Pieces(r.Stdout) {
			f := bytes.SplitN(rec, []byte("|"), 6)
			if len(f) == 6 && string(f[0]) == "REMOTE" {
				got = append(got, f[5])
			} else {
				modeOK = false
			}
		}
		// in record mode the unterminated last line is printed without newline as well; normalise nothing
	}
	ok := r.Exit == 0 && modeOK && len(got) == len(wantLines)
	if ok {
		for i := range got {
			if !bytes.Equal(got[i], wantLines[i]) {
				ok = false
			}
		}
	}
	if !ok {
		o.Fail = fmt.Sprintf("dgrep %q: exit=%d, %d output lines, want %d (output mode ok: %v); stderr=%q", args[:len(args)-1], r.Exit, len(got), len(wantLines), modeOK, tailS(r.Stderr))
		o.Expected, o.Observed = strs(wantLines), string(clipB(r.Stdout))
	}
	return o
}

func tailS(b []byte) string {
	if len(b) > 300 {
		b = b[len(b)-300:]
	}
	return string(b)
}

func clipB(b []byte) []byte {
	if len(b) > 1500 {
		return b[:1500]
	}
	return b
}

func strs(bs [][]byte) []string {
	var s []string
	for i, b := range bs {
		if i > 30 {
			s = append(s, "...")
			break
		}
		s = append(s, string(b))
	}
	return s
}

const e2eRule = "dgrep binary with a generated RE2 pattern (emphasis on space, runs/edges of spaces, : ; , % = |, non-ASCII, 'regex:'/'base64%' look-alikes), --invert, --before/--after/--max in {0,1..4,5..100000,negative}, output mode plain / record / record+quiet, --grep or --regex, over a generated file; oracle: selected lines == grep reference model with the user's pattern compiled directly, in the requested output mode, exit 0; non-trivial = pattern contains a splitter character or non-ASCII rune and the file has lines of both polarities; distinct by full case"

func sampleE2E(c e2eCase) interface{} {
	return map[string]interface{}{"pattern": c.Pattern, "invert": c.Invert, "before": c.Before, "after": c.After, "max": c.Max, "mode": c.Mode, "ssh": c.SSH, "nlines": len(c.Lines)}
}

func TestC12Serverless(t *testing.T) {
	lib.Run(t, lib.Spec[e2eCase]{Prop: "C12", Check: "e2e-serverless", Rule: "serverless: " + e2eRule, Gen: genE2E(false), Eval: evalE2E, SampleOf: sampleE2E})
}

func TestC12SSH(t *testing.T) {
	lib.Run(t, lib.Spec[e2eCase]{Prop: "C12", Check: "e2e-ssh", Rule: "over SSH: " + e2eRule, Gen: genE2E(true), Eval: evalE2E, SampleOf: sampleE2E})
}

// ---- in-process round trips ----------------------------------------------------------------------

type rtCase struct {
	Pattern string
	Invert  bool
	Quiet   bool
	Plain   bool
	Svless  bool
	Before  int
	After   int
	Max     int
	File    string
	Lines   []string
}

func genRT(t *rapid.T) rtCase {
	p := gen.Regex().Draw(t, "pattern")
	iv := func(l string) int {
		return rapid.OneOf(rapid.Just(0), rapid.IntRange(-5, 5), rapid.IntRange(-2147483648, 2147483647)).Draw(t, l)
	}
	return rtCase{Pattern: p.Expr, Invert: rapid.Bool().Draw(t, "invert"), Quiet: rapid.Bool().Draw(t, "quiet"), Plain: rapid.Bool().Draw(t, "plain"),
		Svless: rapid.Bool().Draw(t, "serverless"), Before: iv("before"), After: iv("after"), Max: iv("max"),
		File:  rapid.SampledFrom([]string{"/var/log/x.log", "/tmp/a*.log", "rel/path.log", "/var/log/*/app-?.log.gz"}).Draw(t, "file"),
		Lines: rapid.SliceOfN(gen.LineFor(p), 0, 12).Draw(t, "lines")}
}

func evalRT(c rtCase) lib.Outcome {
	var o lib.Outcome
	special := strings.ContainsAny(c.Pattern, splitterChars)
	o.NonTrivial = special && len(c.Lines) > 0
	if special {
		o.Classes = append(o.Classes, "pattern-has-splitter-char")
	}
	flag := regex.Default
	if c.Invert {
		flag = regex.Invert
	}
	r1, err := regex.New(c.Pattern, flag)
	if err != nil {
		return lib.Outcome{Skip: true}
	}
	ser, err := r1.Serialize()
	if err != nil {
		o.Fail = "Serialize: " + err.Error()
		return o
	}
	args := config.Args{Quiet: c.Quiet, Plain: c.Plain, Serverless: c.Svless, LContext: lcontext.LContext{BeforeContext: c.Before, AfterContext: c.After, MaxCount: c.Max}}
	opts := args.SerializeOptions()
	// the command as the clients assemble it, and the split the server applies to the decoded payload
	command := fmt.Sprintf("%s:%s %s %s", "grep", opts, c.File, ser)
	fields := strings.Split(command, " ")
	head := strings.Split(fields[0], ":")
	if head[0] != "grep" || fields[1] != c.File {
		o.Fail = fmt.Sprintf("command %q does not split back into its parts", command)
		return o
	}
	var ltx lcontext.LContext
	options := map[string]string{}
	if len(head) > 1 && len(head[1]) > 0 {
		options, ltx, err = config.DeserializeOptions(head[1:])
		if err != nil {
			o.Fail = fmt.Sprintf("DeserializeOptions(%q): %v", head[1:], err)
			return o
		}
	}
	if ltx.BeforeContext != c.Before || ltx.AfterContext != c.After || ltx.MaxCount != c.Max {
		o.Fail = fmt.Sprintf("context options %+v decoded from %q, want before=%d after=%d max=%d", ltx, opts, c.Before, c.After, c.Max)
		return o
	}
	for k, want := range map[string]bool{"quiet": c.Quiet, "plain": c.Plain, "serverless": c.Svless} {
		if (options[k] == "true") != want {
			o.Fail = fmt.Sprintf("option %s decoded as %q from %q, want %v", k, options[k], opts, want)
			return o
		}
	}
	r2, err := regex.Deserialize(strings.Join(fields[2:], " "))
	if err != nil {
		o.Fail = fmt.Sprintf("Deserialize(%q): %v", strings.Join(fields[2:], " "), err)
		return o
	}
	direct := regexp.MustCompile(c.Pattern)
	for _, l := range c.Lines {
		want := isNoop(c.Pattern) || (direct.MatchString(l) != c.Invert)
		if isNoop(c.Pattern) && c.Invert {
			continue
		}
		if got := r2.MatchString(l); got != want {
			o.Fail = fmt.Sprintf("decoded regex %v selects=%v line %q, the user's pattern %q (invert=%v) selects=%v", r2, got, l, c.Pattern, c.Invert, want)
			return o
		}
	}
	// a second session of the same server process asks for the same pattern with the opposite polarity while the first
	// one's filter is still in use: each session keeps selecting what its own user specified
	if !isNoop(c.Pattern) {
		other := regex.Invert
		if c.Invert {
			other = regex.Default
		}
		r3c, err := regex.New(c.Pattern, other)
		if err != nil {
			return o
		}
		ser3, err := r3c.Serialize()
		if err != nil {
			o.Fail = "Serialize (second session): " + err.Error()
			return o
		}
		r3, err := regex.Deserialize(ser3)
		if err != nil {
			o.Fail = fmt.Sprintf("Deserialize(%q) (second session): %v", ser3, err)
			return o
		}
		o.Classes = append(o.Classes, "second-session-opposite-polarity")
		for _, l := range c.Lines {
			m := direct.MatchString(l)
			if got := r3.MatchString(l); got != (m == c.Invert) {
				o.Fail = fmt.Sprintf("second session: decoded regex %v selects=%v line %q, its user's pattern %q (invert=%v) selects=%v", r3, got, l, c.Pattern, !c.Invert, m == c.Invert)
				return o
			}
			if got := r2.MatchString(l); got != (m != c.Invert) {
				o.Fail = fmt.Sprintf("after a second session decoded the same pattern with invert=%v, the first session's regex %v selects=%v line %q; its user's pattern %q (invert=%v) selects=%v", !c.Invert, r2, got, l, c.Pattern, c.Invert, m != c.Invert)
				return o
			}
			if got := r1.MatchString(l); got != (m != c.Invert) {
				o.Fail = fmt.Sprintf("after a second session built the same pattern with invert=%v, the first client's regex %v selects=%v line %q; want %v", !c.Invert, r1, got, l, m != c.Invert)
				return o
			}
		}
	}
	return o
}

func TestC12RoundTrip(t *testing.T) {
	lib.Run(t, lib.Spec[rtCase]{Prop: "C12", Check: "roundtrip",
		Rule: "in-process: regex.New -> Serialize and Args.SerializeOptions, assembled into a command as the clients do, split as the server does, DeserializeOptions / regex.Deserialize; oracle: decoded context integers (full int32 range), quiet/plain/serverless flags and line selection equal the originals; non-trivial = pattern with a splitter character and >=1 line",
		Gen:  genRT, Eval: evalRT,
		SampleOf: func(c rtCase) interface{} {
			return map[string]interface{}{"pattern": c.Pattern, "invert": c.Invert, "before": c.Before, "after": c.After, "max": c.Max}
		}})
}

// ---- mapreduce session: an option-less first command ("map <query>") followed by "cat:<options> ..." ----------------

type maprSession struct {
	Keys  []string // group key of each line
	Stdin bool     // feed the log through a stdin pipe (serverless option must reach the server side) or as a file
	Flag  string   // "", --plain, --quiet
}

func genMaprSession(t *rapid.T) maprSession {
	return maprSession{
		Keys:  rapid.SliceOfN(rapid.SampledFrom([]string{"a", "b", "c"}), 1, 40).Draw(t, "keys"),
		Stdin: rapid.Bool().Draw(t, "stdin"),
		Flag:  rapid.SampledFrom([]string{"", "--plain", "--quiet"}).Draw(t, "flag"),
	}
}

func evalMaprSession(c maprSession) lib.Outcome {
	var o lib.Outcome
	o.NonTrivial = c.Stdin || c.Flag != ""
	o.Classes = []string{"mapr-session", "flag=" + c.Flag}
	if c.Stdin {
		o.Classes = append(o.Classes, "stdin-pipe")
	}
	caseMu.Lock()
	caseN++
	id := caseN
	caseMu.Unlock()
	dir := filepath.Join(root, fmt.Sprintf("mcase-%d", id%64))
	os.RemoveAll(dir)
	os.MkdirAll(dir, 0o755)
	defer os.RemoveAll(dir)
	var content bytes.Buffer
	want := map[string]int{}
	for i, k := range c.Keys {
		fmt.Fprintf(&content, "INFO|1002-071143|1|stats.go:56|8|13|7|0.21|471h0m21s|MAPREDUCE:STATS|k=%s|v=%d\n", k, i)
		want[k]++
	}
	file := filepath.Join(dir, "in.log")
	os.WriteFile(file, content.Bytes(), 0o644)
	out := filepath.Join(dir, "out.csv")
	query := fmt.Sprintf("select count($line),k from STATS group by k outfile %s", out)
	args := []string{"--cfg", "none", "--noColor", "--logLevel", "error", "--query", query}
	if c.Flag != "" {
		args = append(args, c.Flag)
	}
	opts := lib.RunOpts{Home: home, Timeout: 60 * time.Second}
	if c.Stdin {
		opts.Stdin = bytes.NewReader(content.Bytes())
	} else {
		args = append(args, file)
	}
	r := lib.RunClient("dmap", args, opts)
	if r.TimedOut {
		o.Fail = fmt.Sprintf("dmap %q did not terminate within 60s", args)
		return o
	}
	b, _ := os.ReadFile(out)
	got := map[string]int{}
	for i, l := range strings.Split(strings.TrimSpace(string(b)), "\n") {
		if i == 0 {
			continue
		}
		f := strings.Split(l, ",")
		if len(f) == 2 {
			n := 0
			fmt.Sscan(f[0], &n)
			got[f[1]] = n
		}
	}
	if fmt.Sprint(got) != fmt.Sprint(want) || r.Exit != 0 {
		o.Fail = fmt.Sprintf("dmap %q (stdin=%v): exit=%d, result %v, want %v; stderr=%q", args, c.Stdin, r.Exit, got, want, tailS(r.Stderr))
		o.Observed = string(b)
	}
	return o
}

func TestC12MaprSession(t *testing.T) {
	lib.Run(t, lib.Spec[maprSession]{Prop: "C12", Check: "mapr-session",
		Rule: "dmap binary, serverless: the session's first command ('map <query>') carries no options, the following 'cat:<options>' does; log lines given as a file or through a stdin pipe (which only works if the 'serverless' option reaches the server side), with --plain / --quiet / neither; oracle: CSV counts per group == line counts; non-trivial = stdin pipe or an output-mode flag",
		Gen:  genMaprSession, Eval: evalMaprSession})
}
