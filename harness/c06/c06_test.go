// Package c06 checks property C06: a mapreduce run accounts for every line of every file of every
// server exactly once and then terminates, under any scheduling.
//
// Two layers:
//   - merge:  the real client-side aggregation (one client.Aggregate per simulated server, one shared
//     GlobalGroupSet, a concurrent result reporter) is fed, from truly concurrent goroutines, the messages the
//     real server-side aggregators produced; the final result must equal the sequential one.
//   - e2e:    the real dmap binary, serverless over n files or against k fresh server processes, with the
//     concurrency limit, the command shape (one glob / one command per file), file sizes, CPU load and hook
//     placed delays varied. In the "clean" schedule space two hook actions take away the one known defect
//     (the server cannot know that more files/commands follow); in the free space a failure must match that
//     defect's signature in the hook trace, anything else is a violation.
package c06

import (
	"io"
	"fmt"
	"os"
	"path/filepath"
	"regexp"
	"runtime"
	"sort"
	"strings"
	"sync"
	"sync/atomic"
	"testing"
	"time"

	"github.com/mimecast/dtail/internal/mapr"
	maprclient "github.com/mimecast/dtail/internal/mapr/client"
	"github.com/mimecast/dtail/verif/gen"
	"github.com/mimecast/dtail/verif/lib"
	"github.com/mimecast/dtail/verif/model"
	"pgregory.net/rapid"
)

var (
	root    string
	caseN   int64
	userKey lib.KeyPair
)

func TestMain(m *testing.M) {
	lib.Main(m, func() {
		lib.InitDtailServer()
		cwd, _ := os.Getwd()
		root, _ = os.MkdirTemp(cwd, "c06-")
		root, _ = filepath.EvalSymlinks(root)
		userKey = lib.NewKeyPair("tester")
	})
}

// ---- shared: data and expected result ----------------------------------------------

// the j-th line (0-based) of file f on server s
func rowOf(s, f, j, groups int) gen.Row {
	g := (j*7 + f*3 + s) % groups
	v := (j*13+f+s*5)%50 - 10
	return gen.Row{Time: "1002-071143", Keys: []string{"k", "v"}, Vals: []string{fmt.Sprintf("g%d", g), fmt.Sprint(v)}}
}

var table = gen.Table{Format: "default", Name: "STATS", Keys: []string{"k", "v"}, NumKeys: []string{"v"}, Clean: true}

func baseQuery(kind int) gen.Q {
	q := gen.Q{Table: "STATS", GroupBy: []gen.Field{{Name: "k"}}, HasIntvl: true, Interval: 1}
	switch kind {
	case 0:
		q.Select = []gen.Sel{{Agg: "count", Field: "$line"}, {Agg: "sum", Field: "v"}, {Field: "k"}}
	case 1:
		q.Select = []gen.Sel{{Field: "k"}, {Agg: "count", Field: "v"}, {Agg: "min", Field: "v"}, {Agg: "max", Field: "v"}, {Agg: "avg", Field: "v"}}
		q.HasOrder, q.OrderBy = true, 1
	default:
		q.Select = []gen.Sel{{Agg: "count", Field: "$line"}, {Field: "k"}}
		q.HasWhere = true
		q.Where = []gen.Cond{{L: gen.Arg{Kind: "field", S: "v"}, Op: ">=", R: gen.Arg{Kind: "float", S: "0"}}}
	}
	return q
}

// ---- layer 1: concurrent client-side merge -------------------------------------------

type mergeCase struct {
	Servers  int
	Groups   int
	Lines    int   // lines per server
	Partials []int // partial transmissions per server are placed after these fractions (percent) of its lines
	Query    int
	Reporter int // 0 none, 1 Result loop, 2 WriteResult(interim) loop
	Rounds   int
}

func genMerge(t *rapid.T) mergeCase {
	var c mergeCase
	c.Servers = rapid.SampledFrom([]int{2, 3, 8, 16, 32, 64}).Draw(t, "servers")
	c.Groups = rapid.SampledFrom([]int{1, 2, 5, 50}).Draw(t, "groups")
	c.Lines = rapid.IntRange(1, 40).Draw(t, "lines")
	np := rapid.IntRange(0, 3).Draw(t, "npartials")
	for i := 0; i < np; i++ {
		c.Partials = append(c.Partials, rapid.IntRange(1, 99).Draw(t, "partial"))
	}
	sort.Ints(c.Partials)
	c.Query = rapid.IntRange(0, 2).Draw(t, "query")
	c.Reporter = rapid.IntRange(0, 2).Draw(t, "reporter")
	c.Rounds = 25
	return c
}

func evalMerge(c mergeCase) lib.Outcome {
	var o lib.Outcome
	id := atomic.AddInt64(&caseN, 1)
	out := filepath.Join(root, fmt.Sprintf("merge-%d.csv", id%64))
	q := baseQuery(c.Query)
	q.HasOutfile, q.Outfile = true, out
	qs := gen.Canonical(q)
	var parts []lib.ServerPart
	var rows []map[string]string
	for s := 0; s < c.Servers; s++ {
		var lines []string
		for j := 0; j < c.Lines; j++ {
			r := rowOf(s, 0, j, c.Groups)
			lines = append(lines, table.Line(r))
			rows = append(rows, table.Fields(r))
		}
		var ser []int
		for _, p := range c.Partials {
			if n := c.Lines * p / 100; n >= 1 {
				ser = append(ser, n)
			}
		}
		parts = append(parts, lib.ServerPart{Host: fmt.Sprintf("h%d", s), Files: [][]string{lines}, SerializeAfter: ser})
	}
	msgs, _, err := lib.MaprMessages(qs, parts, 60*time.Second)
	if err != nil {
		o.Fail = "server-side aggregation: " + err.Error()
		return o
	}
	exp := model.EvalQuery(q, rows)
	query, err := mapr.NewQuery(qs)
	if err != nil {
		o.Fail = "NewQuery: " + err.Error()
		return o
	}
	nmsg := 0
	for _, m := range msgs {
		nmsg += len(m)
	}
	o.NonTrivial = c.Servers >= 2 && nmsg >= c.Servers
	o.Classes = []string{fmt.Sprintf("servers=%d", c.Servers), fmt.Sprintf("reporter=%d", c.Reporter)}
	if len(c.Partials) > 0 {
		o.Classes = append(o.Classes, "several-messages-per-server")
	}
	for round := 0; round < c.Rounds; round++ {
		global := mapr.NewGlobalGroupSet()
		var wg sync.WaitGroup
		start := make(chan struct{})
		stop := make(chan struct{})
		var errCount int64
		for s := range msgs {
			wg.Add(1)
			go func(s int) {
				defer wg.Done()
				ca := maprclient.NewAggregate(parts[s].Host, query, global)
				<-start
				for _, m := range msgs[s] {
					if err := ca.Aggregate(m); err != nil {
						atomic.AddInt64(&errCount, 1)
					}
				}
			}(s)
		}
		var rwg sync.WaitGroup
		if c.Reporter > 0 {
			rwg.Add(1)
			go func() {
				defer rwg.Done()
				<-start
				for {
					select {
					case <-stop:
						return
					default:
					}
					if c.Reporter == 1 {
						global.Result(query, -1)
					} else {
						global.WriteResult(query, false)
					}
					runtime.Gosched()
				}
			}()
		}
		close(start)
		wg.Wait()
		close(stop)
		rwg.Wait()
		os.Remove(out)
		if err := global.WriteResult(query, true); err != nil {
			o.Fail = "WriteResult: " + err.Error()
			return o
		}
		b, _ := os.ReadFile(out)
		os.Remove(out)
		os.Remove(out + ".query")
		os.Remove(out + ".tmp")
		lines := strings.Split(strings.TrimSuffix(string(b), "\n"), "\n")
		var got [][]string
		for _, l := range lines[1:] {
			got = append(got, strings.Split(l, ","))
		}
		if msg := model.CheckResult(q, exp, got); msg != "" {
			o.Fail = fmt.Sprintf("round %d: final result after concurrent delivery of %d messages from %d servers differs from the central evaluation: %s", round, nmsg, c.Servers, msg)
			o.Expected = map[string]interface{}{"query": qs, "groups": len(exp), "total_lines": len(rows)}
			o.Observed = got
			return o
		}
		if errCount > 0 {
			o.Fail = fmt.Sprintf("round %d: %d aggregate messages were refused by the client", round, errCount)
			return o
		}
	}
	return o
}

func TestC06Merge(t *testing.T) {
	lib.Run(t, lib.Spec[mergeCase]{Prop: "C06", Check: "merge",
		Rule: "2..64 simulated servers x 1..40 lines x 1..50 groups x 0..3 partial transmissions; the messages of the real server-side aggregators are handed to one real client.Aggregate per server from concurrently released goroutines sharing one GlobalGroupSet, optionally with a result reporter (Result / interim WriteResult) spinning alongside; 25 rounds per case; oracle: the final CSV equals the central evaluation by the reference model (every line once). Non-trivial = >=2 servers each delivering >=1 message",
		Gen: genMerge, Eval: evalMerge})
}

// ---- layer 2: the dmap binary -------------------------------------------------------------

type e2eCase struct {
	Servers int     // 0 = serverless
	Files   [][]int // per server (one entry when serverless): lines per file
	Groups  int
	Cats    int  // MaxConcurrentCats
	Glob    bool // one command with a glob; otherwise one command per file
	Clean   bool // take away the known defect by hook (await) actions
	Sched   []string
	Load    int
	Query   int
	// GenQ, if set, replaces the fixed query shape by a generated query over the fields k, v (checked against the
	// same reference evaluator as in C05, but through the real binary, transport and client-chosen table regex)
	GenQ *gen.Q
	// Procs: GOMAXPROCS of the dmap process and of the servers (0 = default)
	Procs int
	// Aborted: that many earlier sessions (a dcat of an 8 MB file whose client stops reading and is killed
	// mid-transfer) ran against every server before the mapreduce run starts
	Aborted int `json:",omitempty"`
}

var lineCounts = []int{0, 1, 50, 100, 101, 250, 1000, 5000}

var perturb = []string{"aggr.closed=sleep:%dms", "aggr.requeue=sleep:%dms", "read.registered=sleep:%dms", "read.limiter.acquired=sleep:%dms", "cli.merge.attempt=sleep:%dms", "read.limiter.released=sleep:%dms", "srv.read.line=yield", "cli.cmd.between=sleep:%dms"}

func genE2E(t *rapid.T) e2eCase {
	var c e2eCase
	if rapid.IntRange(0, 2).Draw(t, "transport") > 0 {
		c.Servers = rapid.SampledFrom([]int{1, 2, 2, 3, 5, 8}).Draw(t, "servers")
		if lib.Thorough() && rapid.IntRange(0, 5).Draw(t, "many") == 0 {
			c.Servers = rapid.SampledFrom([]int{12, 24}).Draw(t, "manyservers")
		}
	}
	ns := c.Servers
	if ns == 0 {
		ns = 1
	}
	c.Cats = rapid.SampledFrom([]int{1, 2, 2, 8, 200}).Draw(t, "cats")
	shape := rapid.IntRange(0, 19).Draw(t, "shape")
	for s := 0; s < ns; s++ {
		nf := rapid.IntRange(1, 12).Draw(t, "nfiles")
		if shape == 0 && c.Servers <= 2 {
			nf = rapid.SampledFrom([]int{99, 101, 130}).Draw(t, "manyfiles")
			if rapid.Bool().Draw(t, "manyfiles-nolimit") {
				c.Cats = 200
			}
		}
		var fl []int
		for f := 0; f < nf; f++ {
			lc := rapid.SampledFrom(lineCounts).Draw(t, "lines")
			if nf > 20 && lc > 250 {
				lc = 250
			}
			fl = append(fl, lc)
		}
		c.Files = append(c.Files, fl)
	}
	c.Groups = rapid.SampledFrom([]int{1, 3, 5, 40}).Draw(t, "groups")
	if shape == 1 || shape == 2 {
		// a large result: many groups per server (several transport reads per server)
		c.Groups = rapid.SampledFrom([]int{3000, 12000}).Draw(t, "manygroups")
		for s := range c.Files {
			c.Files[s][0] = c.Groups * 2
		}
	}
	c.Glob = rapid.Bool().Draw(t, "glob")
	c.Clean = rapid.IntRange(0, 3).Draw(t, "clean") > 0
	np := rapid.IntRange(0, 2).Draw(t, "nperturb")
	for i := 0; i < np; i++ {
		p := rapid.SampledFrom(perturb).Draw(t, "perturb")
		if strings.Contains(p, "%d") {
			ms := rapid.SampledFrom([]int{1, 5, 30, 120}).Draw(t, "ms")
			if strings.HasPrefix(p, "cli.merge") && ms > 5 {
				ms = 5 // hit once per aggregate message
			}
			p = fmt.Sprintf(p, ms)
		}
		c.Sched = append(c.Sched, p)
	}
	if c.Groups >= 3000 {
		// one aggregate message per group and transmission: a delay per merge attempt would only make the harness
		// slow (12000 groups x 5 ms = 60 s per transmission), not perturb anything
		var kept []string
		for _, p := range c.Sched {
			if !strings.HasPrefix(p, "cli.merge") {
				kept = append(kept, p)
			}
		}
		c.Sched = kept
	}
	c.Load = rapid.SampledFrom([]int{0, 0, 0, 2, 4}).Draw(t, "load")
	c.Query = rapid.IntRange(0, 2).Draw(t, "query")
	c.Procs = rapid.SampledFrom([]int{0, 0, 0, 1, 2}).Draw(t, "procs")
	if c.Servers > 0 && rapid.Bool().Draw(t, "has-aborted") {
		c.Aborted = rapid.SampledFrom([]int{1, 2, c.Cats, c.Cats + 1}).Draw(t, "aborted")
		if c.Aborted > 5 {
			c.Aborted = 5
		}
	}
	if c.Groups <= 40 && rapid.IntRange(0, 2).Draw(t, "genq") == 0 {
		q := gen.MaprQuery(table, false).Draw(t, "generated-query")
		q.HasIntvl, q.Interval = true, 1
		c.GenQ = &q
	}
	return c
}

type procTrace struct {
	names []string
}

func readTrace(path string) procTrace {
	var pt procTrace
	b, err := os.ReadFile(path)
	if err != nil {
		return pt
	}
	for _, l := range strings.Split(string(b), "\n") {
		if f := strings.Fields(l); len(f) == 2 {
			pt.names = append(pt.names, f[1])
		}
	}
	return pt
}

// knownSignature recognises the known defect in one process' trace: the aggregator decided "no more files"
// before all nfiles files of the session were registered, or the session began to shut down before all its
// ncmds commands had arrived.
func (pt procTrace) knownSignature(ncmds, nfiles int) string {
	received, registered := 0, 0
	for _, n := range pt.names {
		switch n {
		case "read.registered":
			registered++
		case "aggr.closed.nomore":
			if registered < nfiles {
				return fmt.Sprintf("aggr.closed.nomore after %d of %d files were registered", registered, nfiles)
			}
		case "srv.cmd.received":
			received++
		case "srv.shutdown.begin":
			if received < ncmds {
				return fmt.Sprintf("srv.shutdown.begin after %d of %d commands", received, ncmds)
			}
		}
	}
	return ""
}

func (pt procTrace) count(name string) int {
	n := 0
	for _, x := range pt.names {
		if x == name {
			n++
		}
	}
	return n
}

var spin int32

func withLoad(n int, fn func()) {
	stop := make(chan struct{})
	var wg sync.WaitGroup
	for i := 0; i < n; i++ {
		wg.Add(1)
		go func() {
			defer wg.Done()
			for {
				select {
				case <-stop:
					return
				default:
					for k := 0; k < 10000; k++ {
						atomic.AddInt32(&spin, 1)
					}
				}
			}
		}()
	}
	fn()
	close(stop)
	wg.Wait()
}

func evalE2E(c e2eCase) lib.Outcome {
	o := runE2E(c)
	if o.Inconclusive == "retry" {
		// a run that did not end within the deadline is repeated once before it is reported
		o2 := runE2E(c)
		if o2.Inconclusive == "retry" {
			o2.Inconclusive = ""
			o2.Fail = "dmap did not terminate within 120 s after its input was complete (twice in a row)"
			return o2
		}
		return o2
	}
	return o
}

func runE2E(c e2eCase) lib.Outcome { return runE2EWithin(c, 0) }

func runE2EWithin(c e2eCase, deadline time.Duration) lib.Outcome {
	var o lib.Outcome
	if deadline == 0 {
		deadline = 120 * time.Second
		if !c.Clean {
			// in the free schedule space the known defect can block a session for good: look at the trace early
			deadline = 25 * time.Second
		}
	}
	id := atomic.AddInt64(&caseN, 1)
	cdir := filepath.Join(root, fmt.Sprintf("e%d-%d", os.Getpid(), id))
	os.MkdirAll(cdir, 0o755)
	defer os.RemoveAll(cdir)
	home := filepath.Join(cdir, "home")
	os.MkdirAll(home, 0o755)
	ns := len(c.Files)
	// files
	var rows []map[string]string
	var allFiles []string
	totalFiles := 0
	multi := ns >= 2
	for s := 0; s < ns; s++ {
		d := filepath.Join(cdir, "data", fmt.Sprintf("srv%d", s))
		os.MkdirAll(d, 0o755)
		if len(c.Files[s]) >= 2 {
			multi = true
		}
		for f, n := range c.Files[s] {
			var sb strings.Builder
			for j := 0; j < n; j++ {
				r := rowOf(s, f, j, c.Groups)
				sb.WriteString(table.Line(r))
				sb.WriteByte('\n')
				rows = append(rows, table.Fields(r))
			}
			p := filepath.Join(d, fmt.Sprintf("f%03d.log", f))
			os.WriteFile(p, []byte(sb.String()), 0o644)
			allFiles = append(allFiles, p)
			totalFiles++
		}
	}
	q := baseQuery(c.Query)
	if c.GenQ != nil {
		q = *c.GenQ
	}
	outfile := filepath.Join(cdir, "out.csv")
	q.HasOutfile, q.Outfile = true, outfile
	qs := gen.Canonical(q)
	exp := model.EvalQuery(q, rows)

	files := strings.Join(allFiles, ",")
	ncmdsPerSession := 1 + len(allFiles) // map + one command per file (every server gets every command)
	if c.Glob {
		files = filepath.Join(cdir, "data", "*", "*.log")
		ncmdsPerSession = 2
	}
	sched := func(nfiles int) string {
		var s []string
		if c.Clean {
			// the aggregator's k-th "channel closed" waits until k+1 (at most all) files are registered, and no command
			// finishes before all commands of the session have arrived: the server then knows what the client knows
			if nfiles > 0 {
				s = append(s, fmt.Sprintf("aggr.closed=awaitnext:read.registered:%d", nfiles))
			}
			s = append(s, fmt.Sprintf("srv.cmd.finished=await:srv.cmd.received:%d", ncmdsPerSession))
		}
		for _, p := range c.Sched {
			name := strings.SplitN(p, "=", 2)[0]
			if c.Clean && (name == "aggr.closed") {
				continue
			}
			s = append(s, p)
		}
		return strings.Join(s, ";")
	}
	o.NonTrivial = multi
	o.Classes = []string{fmt.Sprintf("cats=%d", c.Cats)}
	if c.Servers == 0 {
		o.Classes = append(o.Classes, "serverless")
	} else {
		o.Classes = append(o.Classes, fmt.Sprintf("servers=%d", c.Servers))
	}
	if c.Glob {
		o.Classes = append(o.Classes, "one-glob-command")
	} else {
		o.Classes = append(o.Classes, "command-per-file")
	}
	if c.Clean {
		o.Classes = append(o.Classes, "clean-schedule-space")
	} else {
		o.Classes = append(o.Classes, "free-schedule-space")
	}
	for s := range c.Files {
		if len(c.Files[s]) > c.Cats {
			o.Classes = append(o.Classes, "files>limit")
			break
		}
	}
	if totalFiles > 100 {
		o.Classes = append(o.Classes, "files>100")
	}
	if c.Groups >= 3000 {
		o.Classes = append(o.Classes, "large-result")
	}
	if len(c.Sched) > 0 {
		o.Classes = append(o.Classes, "hook-delays")
	}
	if c.GenQ != nil {
		o.Classes = append(o.Classes, "generated-query")
	}
	if c.Procs > 0 {
		o.Classes = append(o.Classes, fmt.Sprintf("GOMAXPROCS=%d", c.Procs))
	}
	if c.Load > 0 {
		o.Classes = append(o.Classes, "cpu-load")
	}

	var traces []string
	args := []string{"--noColor", "--logLevel", "error", "--query", qs, "--files", files}
	env := []string{}
	var servers []*lib.Server
	defer func() {
		for _, s := range servers {
			s.Stop()
		}
	}()
	if c.Servers == 0 {
		cfg := filepath.Join(cdir, "client.json")
		lib.WriteCfg(cfg, lib.ServerCfg{MaxConcurrentCats: c.Cats})
		args = append(args, "--cfg", cfg)
		tp := filepath.Join(cdir, "trace-client")
		traces = append(traces, tp)
		env = append(env, "VHOOK_TRACE="+tp, "VHOOK_SCHED="+sched(totalFiles))
		if c.Procs > 0 {
			env = append(env, fmt.Sprintf("GOMAXPROCS=%d", c.Procs))
		}
	} else {
		var addrs []string
		var mu sync.Mutex
		var wg sync.WaitGroup
		errs := make([]error, c.Servers)
		servers = make([]*lib.Server, c.Servers)
		traces = make([]string, c.Servers)
		for s := 0; s < c.Servers; s++ {
			wg.Add(1)
			go func(s int) {
				defer wg.Done()
				perm := &lib.Permissions{Default: []string{"^" + regexp.QuoteMeta(cdir) + "/data/srv" + fmt.Sprint(s) + "/.*"}}
				tp := filepath.Join(cdir, fmt.Sprintf("trace-srv%d", s))
				srv, err := lib.StartServer(lib.ServerOpts{Dir: filepath.Join(cdir, fmt.Sprintf("server%d", s)), Label: fmt.Sprintf("host%d", s),
					Cfg:   lib.ServerCfg{MaxConcurrentCats: c.Cats, Permissions: perm},
					Users: map[string][]string{"tester": {userKey.Authorized}},
					Env:   append([]string{"VHOOK_TRACE=" + tp, "VHOOK_SCHED=" + sched(len(c.Files[s]))}, procsEnv(c.Procs)...)})
				mu.Lock()
				servers[s], errs[s], traces[s] = srv, err, tp
				mu.Unlock()
			}(s)
		}
		wg.Wait()
		var live []*lib.Server
		for s, e := range errs {
			if e != nil {
				servers = live
				return lib.Outcome{Inconclusive: "server start: " + e.Error()}
			}
			live = append(live, servers[s])
			addrs = append(addrs, servers[s].Addr())
		}
		keyPath, err := lib.ClientHome(home, userKey, servers...)
		if err != nil {
			return lib.Outcome{Inconclusive: "client home: " + err.Error()}
		}
		args = append(args, "--servers", strings.Join(addrs, ","), "--user", "tester", "--key", keyPath)
		if c.Aborted > 0 {
			o.Classes = append(o.Classes, "after-aborted-sessions")
			line := strings.Repeat("x", 99) + "\n"
			var blobs []string
			for s := 0; s < c.Servers; s++ {
				b := filepath.Join(cdir, "data", fmt.Sprintf("srv%d", s), "big.blob")
				os.WriteFile(b, []byte(strings.Repeat(line, 80000)), 0o644)
				blobs = append(blobs, b)
			}
			for k := 0; k < c.Aborted; k++ {
				lib.RunClient("dcat", []string{"--plain", "--servers", strings.Join(addrs, ","), "--user", "tester", "--key", keyPath,
					"--files", filepath.Join(cdir, "data", "*", "big.blob")},
					lib.RunOpts{Home: home, Timeout: 400 * time.Millisecond, StdoutPipe: func(r io.Reader) { time.Sleep(600 * time.Millisecond) }})
			}
			for _, b := range blobs {
				os.Remove(b)
			}
			time.Sleep(500 * time.Millisecond)
		}
		var cs []string
		for _, p := range c.Sched {
			if strings.HasPrefix(p, "cli.") {
				cs = append(cs, p)
			}
		}
		env = append(env, "VHOOK_SCHED="+strings.Join(cs, ";"))
		env = append(env, procsEnv(c.Procs)...)
	}
	var r lib.Result
	withLoad(c.Load, func() {
		r = lib.RunClient("dmap", args, lib.RunOpts{Home: home, Timeout: deadline, Env: env})
	})
	// traces
	var pts []procTrace
	known := ""
	for i, tp := range traces {
		pt := readTrace(tp)
		pts = append(pts, pt)
		nfiles := totalFiles
		if c.Servers > 0 {
			nfiles = len(c.Files[i])
		}
		if k := pt.knownSignature(ncmdsPerSession, nfiles); k != "" && known == "" {
			known = fmt.Sprintf("process %d: %s", i, k)
		}
	}
	trace := map[string]interface{}{"known_signature": known, "exit": r.Exit, "wall_ms": r.Wall.Milliseconds()}
	fail := func(msg string, expected, observed interface{}) lib.Outcome {
		o.Fail, o.Expected, o.Observed, o.Trace = msg, expected, observed, trace
		if known != "" && !c.Clean {
			o.KnownKey = "aggregator-ends-early"
		}
		return o
	}
	if r.TimedOut {
		if known != "" && !c.Clean {
			return fail(fmt.Sprintf("dmap did not terminate within %v", deadline), nil, nil)
		}
		if deadline < 120*time.Second {
			return runE2EWithin(c, 120*time.Second)
		}
		o.Inconclusive = "retry"
		return o
	}
	b, err := os.ReadFile(outfile)
	if err != nil {
		if len(exp) == 0 && r.Exit == 0 {
			// nothing matched: no aggregate data, dtail writes an outfile with the header only or none
			return o
		}
		return fail(fmt.Sprintf("no outfile after exit status %d: %v; stderr=%s", r.Exit, err, clipS(string(r.Stderr))), nil, nil)
	}
	lines := strings.Split(strings.TrimSuffix(string(b), "\n"), "\n")
	var got [][]string
	for _, l := range lines[1:] {
		if l != "" {
			got = append(got, strings.Split(l, ","))
		}
	}
	if msg := model.CheckResult(q, exp, got); msg != "" {
		sum := 0
		for _, g := range got {
			for i, sc := range q.Select {
				if sc.Agg == "count" && i < len(g) {
					var n int
					fmt.Sscan(g[i], &n)
					sum += n
					break
				}
			}
		}
		return fail(fmt.Sprintf("final result differs from the central evaluation (every line of every file once): %s; lines counted %d of %d", msg, sum, len(rows)),
			map[string]interface{}{"query": qs, "groups": len(exp), "total_lines": len(rows), "files": c.Files}, clipRows(got))
	}
	if r.Exit != 0 {
		return fail(fmt.Sprintf("exit status %d; stderr=%s", r.Exit, clipS(string(r.Stderr))), nil, nil)
	}
	if known != "" {
		o.Classes = append(o.Classes, "known-signature-in-trace-but-result-complete")
	}
	return o
}

func procsEnv(n int) []string {
	if n <= 0 {
		return nil
	}
	return []string{fmt.Sprintf("GOMAXPROCS=%d", n)}
}

func clipS(s string) string {
	if len(s) > 500 {
		return s[len(s)-500:]
	}
	return s
}

func clipRows(r [][]string) interface{} {
	if len(r) > 30 {
		return map[string]interface{}{"rows": len(r), "first": r[:10]}
	}
	return r
}

func sampleE2E(c e2eCase) interface{} { return c }

func TestC06E2E(t *testing.T) {
	lib.Run(t, lib.Spec[e2eCase]{Prop: "C06", Check: "e2e",
		Rule: "real dmap binary, serverless or against 1..8 (thorough: ..24) freshly started server processes; 1..12 (sometimes 99..130) files per server with 0..5000 lines (sometimes 3000..12000 groups for a large result), MaxConcurrentCats in {1,2,8,200}; one glob command or one command per file; 0-2 hook-placed delays (aggregator close/requeue, registration, limiter, merge, command loop) and 0/2/4 CPU hogs per shard, GOMAXPROCS default/1/2 for client and servers; 3 fixed query shapes or a grammar-generated query (select/where/set/group/order/limit as in C05). Oracle: exit 0 within 120 s and the CSV outfile equals the central evaluation by the reference model over all lines of all files. clean-schedule-space: hook await actions remove the known defect (server cannot know that more files / commands follow), every failure is a violation; free-schedule-space: a failure is accepted only when the hook trace shows that defect's signature. Non-trivial = >=2 files on a server or >=2 servers",
		Gen: genE2E, Eval: evalE2E, SampleOf: sampleE2E})
}

// TestC06Witness re-checks the open known finding on a fixed input (dmap over 8 small files given as 8 commands),
// so that its KNOWN-FINDING line is printed while it stands and disappears by itself once it is repaired.
func TestC06Witness(t *testing.T) {
	rec := lib.NewRec("C06", "witness", "fixed input: dmap serverless over 8 files of 50 lines given as one command per file, default limits, up to 12 attempts; re-checks the known finding aggregator-ends-early")
	defer rec.Flush()
	c := e2eCase{Files: [][]int{{50, 50, 50, 50, 50, 50, 50, 50}}, Groups: 5, Cats: 2}
	for i := 0; i < 12; i++ {
		o := runE2E(c)
		rec.Case(fmt.Sprintf("witness-%d", i), true, "witness-run")
		if o.Fail == "" {
			continue
		}
		if o.KnownKey == "" {
			path := rec.Violation(c, "the witness input fails without the known finding's trace signature: "+o.Fail, o.Expected, o.Observed, o.Trace)
			t.Fatalf("property C06: %s\nreplay=%s", o.Fail, path)
		}
		lib.Witness(t, rec, "C06", "aggregator-ends-early", c, func() lib.Outcome { return o })
		return
	}
	rec.Class("witness-passes:aggregator-ends-early", 1)
}
