package lib
