// Package lib holds the plumbing shared by every property check: the evidence
// recorder, the known-findings file, replay files and the generic rapid runner.
package lib

import (
	"crypto/sha1"
	"encoding/hex"
	"encoding/json"
	"fmt"
	"os"
	"path/filepath"
	"sort"
	"strconv"
	"strings"
	"sync"
	"time"
)

// VerifDir is the root of the verification tree.
func VerifDir() string {
	if d := os.Getenv("VERIF_DIR"); d != "" {
		return d
	}
	return "/verif"
}

// Seed returns the seed this process was started with (already remapped by vcheck).
func Seed() int64 {
	s, _ := strconv.ParseInt(os.Getenv("VERIF_RAPID_SEED"), 10, 64)
	return s
}

// Tier returns quick or thorough.
func Tier() string {
	if os.Getenv("VERIF_TIER") == "thorough" {
		return "thorough"
	}
	return "quick"
}

// Thorough is true in the thorough tier.
func Thorough() bool { return Tier() == "thorough" }

// ViolationRec describes one violation found by this process.
type ViolationRec struct {
	Check  string `json:"check"`
	Replay string `json:"replay"`
	What   string `json:"what"`
}

// Out is the per-process result file merged by vcheck.
type Out struct {
	Property      string            `json:"property"`
	Check         string            `json:"check"`
	Evaluations   int               `json:"evaluations"`
	Nontrivial    []string          `json:"nontrivial"` // hashes
	Classes       map[string]int    `json:"classes"`
	Samples       []interface{}     `json:"samples"`
	ExcludedKnown map[string]int    `json:"excluded_known"`
	KnownLines    map[string]string `json:"known_lines"`
	Violations    []ViolationRec    `json:"violations"`
	Rule          string            `json:"rule"`
	Exhaustive    bool              `json:"exhaustive"`
	Notes         []string          `json:"notes"`
	WallS         float64           `json:"wall_s"`
	Inconclusive  []string          `json:"inconclusive"`
}

// Rec is the evidence recorder of one test process.
type Rec struct {
	mu         sync.Mutex
	out        Out
	nontrivial map[string]struct{}
	start      time.Time
	maxSamples int
	sampleSeen map[string]bool
}

var (
	recMu sync.Mutex
	recs  []*Rec
)

// NewRec creates a recorder for property/check; it is flushed by FlushAll.
func NewRec(property, check, rule string) *Rec {
	r := &Rec{
		out: Out{Property: property, Check: check, Rule: rule,
			Classes: map[string]int{}, ExcludedKnown: map[string]int{}, KnownLines: map[string]string{}},
		nontrivial: map[string]struct{}{},
		start:      time.Now(),
		maxSamples: 5,
		sampleSeen: map[string]bool{},
	}
	recMu.Lock()
	recs = append(recs, r)
	recMu.Unlock()
	return r
}

// Hash gives a short stable digest of a canonical case encoding.
func Hash(canon string) string {
	h := sha1.Sum([]byte(canon))
	return hex.EncodeToString(h[:8])
}

// Case records one executed case.
func (r *Rec) Case(canon string, nontrivial bool, classes ...string) {
	r.mu.Lock()
	defer r.mu.Unlock()
	r.out.Evaluations++
	if nontrivial {
		r.nontrivial[Hash(canon)] = struct{}{}
	}
	for _, c := range classes {
		if c != "" {
			r.out.Classes[c]++
		}
	}
}

// Class bumps a class counter without counting an evaluation.
func (r *Rec) Class(c string, n int) {
	r.mu.Lock()
	r.out.Classes[c] += n
	r.mu.Unlock()
}

// Sample keeps up to five samples, at most one per sampleClass.
func (r *Rec) Sample(sampleClass string, v interface{}) {
	r.mu.Lock()
	defer r.mu.Unlock()
	if len(r.out.Samples) >= r.maxSamples || r.sampleSeen[sampleClass] {
		return
	}
	r.sampleSeen[sampleClass] = true
	r.out.Samples = append(r.out.Samples, v)
}

// Known records a failing case that matched the signature of a listed known finding.
func (r *Rec) Known(key, what string) {
	r.mu.Lock()
	defer r.mu.Unlock()
	r.out.ExcludedKnown[key]++
	if _, ok := r.out.KnownLines[key]; !ok {
		r.out.KnownLines[key] = what
	}
}

// Excluded counts cases (or inputs) kept out of the domain by construction.
func (r *Rec) Excluded(key string, n int) {
	r.mu.Lock()
	r.out.ExcludedKnown[key] += n
	r.mu.Unlock()
}

// Note adds a free-text note to the evidence.
func (r *Rec) Note(s string) {
	r.mu.Lock()
	r.out.Notes = append(r.out.Notes, s)
	r.mu.Unlock()
}

// Inconclusive marks the run as inconclusive (exit 2), e.g. a time budget hit.
func (r *Rec) Inconclusive(why string) {
	r.mu.Lock()
	r.out.Inconclusive = append(r.out.Inconclusive, why)
	r.mu.Unlock()
}

// SetExhaustive marks the enumeration as complete.
func (r *Rec) SetExhaustive(b bool) { r.mu.Lock(); r.out.Exhaustive = b; r.mu.Unlock() }

// Violation records a violation and writes the replay file. It returns the path.
func (r *Rec) Violation(caseData interface{}, what string, expected, observed interface{}, trace interface{}) string {
	r.mu.Lock()
	defer r.mu.Unlock()
	dir := filepath.Join(VerifDir(), "replay", r.out.Property)
	os.MkdirAll(dir, 0o755)
	name := fmt.Sprintf("%s-seed%d-p%d.json", r.out.Check, Seed(), os.Getpid())
	if rp := os.Getenv("VERIF_REPLAY"); rp != "" {
		name = "replaying-" + filepath.Base(rp)
	}
	path := filepath.Join(dir, name)
	doc := map[string]interface{}{
		"property": r.out.Property, "check": r.out.Check, "seed": Seed(),
		"case": caseData, "what": what, "expected": expected, "observed": observed, "trace": trace,
	}
	b, _ := json.MarshalIndent(doc, "", " ")
	os.WriteFile(path, b, 0o644)
	// one record per check; the last (shrunk) one wins
	found := false
	for i := range r.out.Violations {
		if r.out.Violations[i].Check == r.out.Check {
			r.out.Violations[i] = ViolationRec{r.out.Check, path, what}
			found = true
		}
	}
	if !found {
		r.out.Violations = append(r.out.Violations, ViolationRec{r.out.Check, path, what})
	}
	r.flushLocked()
	return path
}

func (r *Rec) flushLocked() {
	outPath := os.Getenv("VERIF_OUT")
	if outPath == "" {
		return
	}
	o := r.out
	o.Nontrivial = make([]string, 0, len(r.nontrivial))
	for k := range r.nontrivial {
		o.Nontrivial = append(o.Nontrivial, k)
	}
	sort.Strings(o.Nontrivial)
	o.WallS = time.Since(r.start).Seconds()
	b, _ := json.Marshal(o)
	p := strings.TrimSuffix(outPath, ".json") + "." + o.Check + ".json"
	tmp := p + ".tmp"
	os.WriteFile(tmp, b, 0o644)
	os.Rename(tmp, p)
}

// Flush writes the recorder to $VERIF_OUT.<check>.json.
func (r *Rec) Flush() { r.mu.Lock(); r.flushLocked(); r.mu.Unlock() }

// FlushAll flushes every recorder of the process.
func FlushAll() {
	recMu.Lock()
	defer recMu.Unlock()
	for _, r := range recs {
		r.Flush()
	}
}

// Counts returns evaluations and distinct nontrivial so far.
func (r *Rec) Counts() (int, int) {
	r.mu.Lock()
	defer r.mu.Unlock()
	return r.out.Evaluations, len(r.nontrivial)
}
