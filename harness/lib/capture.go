package lib

import (
	"bytes"
	"io"
	"os"
	"sync"
)

var captureMu sync.Mutex

// CaptureStdout runs fn with os.Stdout redirected into a pipe and returns what was written.
// A panic in fn is returned as pan (stdout is restored first).
func CaptureStdout(fn func()) (out []byte, pan interface{}) {
	captureMu.Lock()
	defer captureMu.Unlock()
	r, w, err := os.Pipe()
	if err != nil {
		panic(err)
	}
	old := os.Stdout
	os.Stdout = w
	var buf bytes.Buffer
	done := make(chan struct{})
	go func() { io.Copy(&buf, r); close(done) }()
	func() {
		defer func() { pan = recover() }()
		fn()
	}()
	os.Stdout = old
	w.Close()
	<-done
	r.Close()
	return buf.Bytes(), pan
}
