package lib

import (
	"context"
	"os"
	"sync"

	"github.com/mimecast/dtail/internal/config"
	"github.com/mimecast/dtail/internal/io/dlog"
	"github.com/mimecast/dtail/internal/source"
)

var dtailOnce sync.Once

// InitDtailClient sets up dtail's process globals (config + logger "none") the way a client process does.
func InitDtailClient() { initDtail(source.Client) }

// InitDtailServer sets up the process globals the way the server process does.
func InitDtailServer() { initDtail(source.Server) }

// InitDtailClientStdout is InitDtailClient with the stdout logger (what the client binaries use for their output).
func InitDtailClientStdout() { initDtailWith(source.Client, "stdout", "error") }

func initDtail(src source.Source) { initDtailWith(src, "none", "error") }

func initDtailWith(src source.Source, logger, level string) {
	dtailOnce.Do(func() {
		os.Unsetenv("DTAIL_INTEGRATION_TEST_RUN_MODE")
		args := config.Args{ConfigFile: "none", Logger: logger, LogLevel: level, NoColor: true, SSHPort: config.DefaultSSHPort}
		config.Setup(src, &args, nil)
		var wg sync.WaitGroup
		wg.Add(1)
		dlog.Start(context.Background(), &wg, src)
	})
}
