package lib

import (
	"bufio"
	"os"
	"path/filepath"
	"strings"
	"sync"
)

// Known findings file: one entry per line
//   known: property=C01 key=delim-0xac <what fails>
//   fixed: property=C03 <commit> <what failed>
// Only "known:" lines suppress anything; the file is never written at run time.

type knownEntry struct {
	Property, Key, What string
}

var (
	knownOnce sync.Once
	knownMap  map[string]knownEntry
)

func loadKnown() {
	knownMap = map[string]knownEntry{}
	path := os.Getenv("VERIF_KNOWN_FILE") // set by vcheck: always the committed file, also when a scratch copy of the tree is checked
	if path == "" {
		path = filepath.Join(VerifDir(), "known_findings.txt")
	}
	f, err := os.Open(path)
	if err != nil {
		return
	}
	defer f.Close()
	sc := bufio.NewScanner(f)
	for sc.Scan() {
		line := strings.TrimSpace(sc.Text())
		if !strings.HasPrefix(line, "known:") {
			continue
		}
		rest := strings.Fields(strings.TrimPrefix(line, "known:"))
		var e knownEntry
		var what []string
		for _, w := range rest {
			switch {
			case strings.HasPrefix(w, "property=") && e.Property == "":
				e.Property = strings.TrimPrefix(w, "property=")
			case strings.HasPrefix(w, "key=") && e.Key == "":
				e.Key = strings.TrimPrefix(w, "key=")
			default:
				what = append(what, w)
			}
		}
		e.What = strings.Join(what, " ")
		if e.Key != "" {
			knownMap[e.Property+"/"+e.Key] = e
		}
	}
}

// IsKnown reports whether key is listed as a known (unrepaired) finding of property.
func IsKnown(property, key string) (string, bool) {
	knownOnce.Do(loadKnown)
	e, ok := knownMap[property+"/"+key]
	return e.What, ok
}
