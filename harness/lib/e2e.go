package lib

import (
	"bytes"
	"context"
	"crypto/ed25519"
	"crypto/rand"
	"encoding/json"
	"encoding/pem"
	"errors"
	"fmt"
	"io"
	"net"
	"os"
	"os/exec"
	"path/filepath"
	"strings"
	"sync"
	"syscall"
	"time"

	gossh "golang.org/x/crypto/ssh"
	"golang.org/x/crypto/ssh/knownhosts"
)

// BuildDir is where vcheck put the freshly built binaries.
func BuildDir() string {
	if d := os.Getenv("VERIF_BUILD"); d != "" {
		return d
	}
	return filepath.Join(VerifDir(), ".build")
}

// Bin returns the path of a built binary.
func Bin(name string) string { return filepath.Join(BuildDir(), name) }

// ServerCfg is the part of the dtail configuration file the checks vary.
type ServerCfg struct {
	MaxLineLength      int                      `json:",omitempty"`
	MaxConcurrentCats  int                      `json:",omitempty"`
	MaxConcurrentTails int                      `json:",omitempty"`
	MaxConnections     int                      `json:",omitempty"`
	HostKeyFile        string                   `json:",omitempty"`
	HostKeyBits        int                      `json:",omitempty"`
	MapreduceLogFormat string                   `json:",omitempty"`
	SSHBindAddress     string                   `json:",omitempty"`
	Permissions        *Permissions             `json:",omitempty"`
	Schedule           []map[string]interface{} `json:",omitempty"`
	Continuous         []map[string]interface{} `json:",omitempty"`
}

// Permissions mirrors config.Permissions.
type Permissions struct {
	Default []string
	Users   map[string][]string `json:",omitempty"`
}

// WriteCfg writes a dtail config file with the given server section.
func WriteCfg(path string, s ServerCfg) error {
	doc := map[string]interface{}{"Server": s}
	b, _ := json.MarshalIndent(doc, "", " ")
	return os.WriteFile(path, b, 0o644)
}

// Result of a client run.
type Result struct {
	Stdout, Stderr []byte
	Exit           int
	TimedOut       bool
	Wall           time.Duration
}

// RunOpts configures a client run.
type RunOpts struct {
	Home    string // HOME and cwd
	Stdin   io.Reader
	Env     []string
	Timeout time.Duration
	// StdoutTo, if set, receives stdout instead of the Result buffer (pacing readers).
	StdoutPipe func(r io.Reader)
}

// RunClient runs one of the dtail client binaries as a child process with the mandatory
// environment: stdin=/dev/null unless given, HOME and cwd in a scratch dir.
func RunClient(bin string, args []string, o RunOpts) Result {
	if o.Timeout == 0 {
		o.Timeout = 60 * time.Second
	}
	ctx, cancel := context.WithTimeout(context.Background(), o.Timeout)
	defer cancel()
	cmd := exec.CommandContext(ctx, Bin(bin), args...)
	cmd.Dir = o.Home
	cmd.Env = append([]string{"HOME=" + o.Home, "PATH=/usr/bin:/bin", "USER=root", "LOGNAME=root"}, o.Env...)
	if o.Stdin != nil {
		cmd.Stdin = o.Stdin
	} else {
		devnull, _ := os.Open(os.DevNull)
		defer devnull.Close()
		cmd.Stdin = devnull
	}
	var so, se bytes.Buffer
	cmd.Stderr = &se
	var wg sync.WaitGroup
	if o.StdoutPipe != nil {
		pr, err := cmd.StdoutPipe()
		if err != nil {
			return Result{Exit: -1, Stderr: []byte(err.Error())}
		}
		wg.Add(1)
		go func() { defer wg.Done(); o.StdoutPipe(pr) }()
	} else {
		cmd.Stdout = &so
	}
	cmd.SysProcAttr = &syscall.SysProcAttr{Setpgid: true}
	cmd.Cancel = func() error { return syscall.Kill(-cmd.Process.Pid, syscall.SIGKILL) }
	start := time.Now()
	err := cmd.Start()
	if err != nil {
		return Result{Exit: -1, Stderr: []byte(err.Error())}
	}
	wg.Wait()
	err = cmd.Wait()
	r := Result{Stdout: so.Bytes(), Stderr: se.Bytes(), Wall: time.Since(start)}
	if ctx.Err() == context.DeadlineExceeded {
		r.TimedOut = true
		r.Exit = -1
		return r
	}
	if err != nil {
		var ee *exec.ExitError
		if errors.As(err, &ee) {
			r.Exit = ee.ExitCode()
		} else {
			r.Exit = -1
		}
	}
	return r
}

// ---- keys -----------------------------------------------------------------------

// KeyPair is an ed25519 key in the forms the harness needs.
type KeyPair struct {
	Signer     gossh.Signer
	PrivatePEM []byte
	Authorized string // authorized_keys line (no newline)
}

// NewKeyPair generates an ed25519 key pair.
func NewKeyPair(comment string) KeyPair {
	_, priv, err := ed25519.GenerateKey(rand.Reader)
	if err != nil {
		panic(err)
	}
	blk, err := gossh.MarshalPrivateKey(priv, comment)
	if err != nil {
		panic(err)
	}
	signer, err := gossh.NewSignerFromKey(priv)
	if err != nil {
		panic(err)
	}
	auth := strings.TrimSpace(string(gossh.MarshalAuthorizedKey(signer.PublicKey())))
	return KeyPair{Signer: signer, PrivatePEM: pem.EncodeToMemory(blk), Authorized: auth}
}

// ---- server ---------------------------------------------------------------------

// Server is a running vserver child.
type Server struct {
	Dir     string
	Port    int
	Label   string
	HostKey KeyPair
	cmd     *exec.Cmd
	stdin   io.WriteCloser
	logPath string
	logF    *os.File
	exited  chan struct{}
}

// FreePort asks the kernel for a free TCP port.
func FreePort() int {
	l, err := net.Listen("tcp", "127.0.0.1:0")
	if err != nil {
		panic(err)
	}
	defer l.Close()
	return l.Addr().(*net.TCPAddr).Port
}

// ServerOpts configures StartServer.
type ServerOpts struct {
	Dir         string
	Label       string // host label (DTAIL_HOSTNAME_OVERRIDE)
	Cfg         ServerCfg
	Users       map[string][]string // user -> authorized_keys lines
	LogLevel    string
	Env         []string
	AuthKeysRaw map[string]string // user -> raw authorized_keys file content (overrides Users)
}

// StartServer starts vserver in o.Dir and waits until it accepts connections.
func StartServer(o ServerOpts) (*Server, error) {
	if err := os.MkdirAll(filepath.Join(o.Dir, "cache"), 0o755); err != nil {
		return nil, err
	}
	hk := NewKeyPair("hostkey")
	hostKeyPath := filepath.Join(o.Dir, "cache", "ssh_host_key")
	os.WriteFile(hostKeyPath, hk.PrivatePEM, 0o600)
	o.Cfg.HostKeyFile = hostKeyPath
	if o.Cfg.SSHBindAddress == "" {
		o.Cfg.SSHBindAddress = "127.0.0.1"
	}
	for u, lines := range o.Users {
		os.WriteFile(filepath.Join(o.Dir, "cache", u+".authorized_keys"), []byte(strings.Join(lines, "\n")+"\n"), 0o644)
	}
	for u, raw := range o.AuthKeysRaw {
		os.WriteFile(filepath.Join(o.Dir, "cache", u+".authorized_keys"), []byte(raw), 0o644)
	}
	cfgPath := filepath.Join(o.Dir, "dtail.json")
	if err := WriteCfg(cfgPath, o.Cfg); err != nil {
		return nil, err
	}
	if o.LogLevel == "" {
		o.LogLevel = "info"
	}
	var lastErr error
	for attempt := 0; attempt < 5; attempt++ {
		port := FreePort()
		s := &Server{Dir: o.Dir, Port: port, Label: o.Label, HostKey: hk, logPath: filepath.Join(o.Dir, "server.log")}
		lf, err := os.Create(s.logPath)
		if err != nil {
			return nil, err
		}
		s.logF = lf
		cmd := exec.Command(Bin("vserver"), "--cfg", cfgPath, "--port", fmt.Sprint(port), "--logger", "stdout", "--logLevel", o.LogLevel, "--bindAddress", "127.0.0.1")
		cmd.Dir = o.Dir
		cmd.Env = append([]string{"HOME=" + o.Dir, "PATH=/usr/bin:/bin", "VSERVER_EXIT_ON_STDIN_EOF=yes", "DTAIL_HOSTNAME_OVERRIDE=" + o.Label}, o.Env...)
		cmd.Stdout = lf
		cmd.Stderr = lf
		stdin, err := cmd.StdinPipe()
		if err != nil {
			return nil, err
		}
		s.stdin = stdin
		cmd.SysProcAttr = &syscall.SysProcAttr{Setpgid: true, Pdeathsig: syscall.SIGKILL}
		if err := cmd.Start(); err != nil {
			return nil, err
		}
		s.cmd = cmd
		s.exited = make(chan struct{})
		go func(c *exec.Cmd, ch chan struct{}) { c.Wait(); close(ch) }(cmd, s.exited)
		deadline := time.Now().Add(10 * time.Second)
		ok := false
		for time.Now().Before(deadline) {
			b, _ := os.ReadFile(s.logPath)
			if bytes.Contains(b, []byte("Binding server")) {
				c, err := net.DialTimeout("tcp", fmt.Sprintf("127.0.0.1:%d", port), time.Second)
				if err == nil {
					c.Close()
					// the port may have been taken by somebody else's server in the meantime: ours must have survived binding
					time.Sleep(15 * time.Millisecond)
					b, _ = os.ReadFile(s.logPath)
					if s.Alive() && !bytes.Contains(b, []byte("Failed to open listening")) {
						ok = true
					}
					break
				}
			}
			if !s.Alive() {
				break
			}
			time.Sleep(10 * time.Millisecond)
		}
		if ok {
			return s, nil
		}
		b, _ := os.ReadFile(s.logPath)
		lastErr = fmt.Errorf("server did not come up on port %d: %s", port, tail(b, 600))
		s.Stop()
	}
	return nil, lastErr
}

func tail(b []byte, n int) string {
	if len(b) > n {
		b = b[len(b)-n:]
	}
	return string(b)
}

// Addr returns host:port.
func (s *Server) Addr() string { return fmt.Sprintf("127.0.0.1:%d", s.Port) }

// Log returns the server's log so far.
func (s *Server) Log() []byte { b, _ := os.ReadFile(s.logPath); return b }

// Alive reports whether the server process still runs.
func (s *Server) Alive() bool {
	if s.cmd == nil || s.cmd.Process == nil {
		return false
	}
	select {
	case <-s.exited:
		return false
	default:
	}
	return syscall.Kill(s.cmd.Process.Pid, 0) == nil
}

// DumpGoroutines makes the server print its goroutines into its log (SIGQUIT; the server dies).
func (s *Server) DumpGoroutines() []byte {
	if s.cmd != nil && s.cmd.Process != nil {
		syscall.Kill(s.cmd.Process.Pid, syscall.SIGQUIT)
		select {
		case <-s.exited:
		case <-time.After(3 * time.Second):
		}
	}
	return s.Log()
}

// Pid of the server process.
func (s *Server) Pid() int { return s.cmd.Process.Pid }

// Stop kills the server.
func (s *Server) Stop() {
	if s.cmd != nil && s.cmd.Process != nil {
		syscall.Kill(-s.cmd.Process.Pid, syscall.SIGKILL)
		if s.exited != nil {
			<-s.exited
		}
	}
	if s.stdin != nil {
		s.stdin.Close()
	}
	if s.logF != nil {
		s.logF.Close()
	}
}

// KnownHostsLine returns the known_hosts line that makes clients trust this server at 127.0.0.1:port.
func (s *Server) KnownHostsLine() string {
	return knownhosts.Line([]string{s.Addr()}, s.HostKey.Signer.PublicKey())
}

// ClientHome prepares a scratch HOME with a private key and a known_hosts file trusting the given servers.
func ClientHome(dir string, key KeyPair, servers ...*Server) (keyPath string, err error) {
	if err = os.MkdirAll(filepath.Join(dir, ".ssh"), 0o700); err != nil {
		return
	}
	keyPath = filepath.Join(dir, ".ssh", "id_test")
	if err = os.WriteFile(keyPath, key.PrivatePEM, 0o600); err != nil {
		return
	}
	var kh strings.Builder
	for _, s := range servers {
		kh.WriteString(s.KnownHostsLine())
		kh.WriteString("\n")
	}
	err = os.WriteFile(filepath.Join(dir, ".ssh", "known_hosts"), []byte(kh.String()), 0o600)
	return
}
