package lib

import (
	"encoding/json"
	"fmt"
	"os"
	"testing"

	"pgregory.net/rapid"
)

// Outcome is the verdict of the oracle on one case.
type Outcome struct {
	Fail         string      // non-empty: the property is violated on this case
	Expected     interface{} // what the oracle demands
	Observed     interface{} // what the code did
	Trace        interface{} // hook trace / history, if any
	KnownKey     string      // the failure matches the signature of this known finding
	NonTrivial   bool        // case satisfies the property's non-triviality rule
	Classes      []string    // class labels for the distribution histogram
	Skip         bool        // case is outside the domain (counted, not evaluated)
	Inconclusive string      // case could not be decided (never a violation)
}

// Spec describes one generated check.
type Spec[C any] struct {
	Prop, Check, Rule string
	Gen               func(t *rapid.T) C
	Eval              func(c C) Outcome
	Canon             func(c C) string
	SampleOf          func(c C) interface{}
	SampleClass       func(c C, o Outcome) string
}

type replayDoc struct {
	Property string          `json:"property"`
	Check    string          `json:"check"`
	Case     json.RawMessage `json:"case"`
}

// Canon is the default canonical encoding of a case.
func Canon(c interface{}) string {
	b, _ := json.Marshal(c)
	return string(b)
}

type fataler interface {
	Fatalf(format string, args ...any)
	Helper()
}

func handle[C any](t fataler, rec *Rec, s Spec[C], c C, o Outcome) {
	canon := ""
	if s.Canon != nil {
		canon = s.Canon(c)
	} else {
		canon = Canon(c)
	}
	if o.Skip {
		rec.Class("skipped", 1)
		return
	}
	if o.Inconclusive != "" {
		rec.Class("inconclusive", 1)
		rec.Inconclusive(o.Inconclusive)
		return
	}
	if o.Fail != "" {
		if o.KnownKey != "" {
			if what, ok := IsKnown(s.Prop, o.KnownKey); ok {
				rec.Known(o.KnownKey, what)
				rec.Case(canon, o.NonTrivial, append(o.Classes, "known:"+o.KnownKey)...)
				return
			}
		}
		path := rec.Violation(c, o.Fail, o.Expected, o.Observed, o.Trace)
		t.Fatalf("property %s check %s violated: %s\nreplay=%s", s.Prop, s.Check, o.Fail, path)
		return
	}
	rec.Case(canon, o.NonTrivial, o.Classes...)
	if o.NonTrivial {
		var sv interface{} = c
		if s.SampleOf != nil {
			sv = s.SampleOf(c)
		}
		sc := ""
		if s.SampleClass != nil {
			sc = s.SampleClass(c, o)
		} else if len(o.Classes) > 0 {
			sc = fmt.Sprint(o.Classes)
		} else {
			sc = Hash(canon)
		}
		rec.Sample(sc, sv)
	}
}

// Run executes the spec under rapid, or replays a saved case when VERIF_REPLAY is set.
func Run[C any](t *testing.T, s Spec[C]) {
	rec := NewRec(s.Prop, s.Check, s.Rule)
	defer rec.Flush()
	if rp := os.Getenv("VERIF_REPLAY"); rp != "" {
		b, err := os.ReadFile(rp)
		if err != nil {
			t.Fatalf("replay: %v", err)
		}
		var doc replayDoc
		if err := json.Unmarshal(b, &doc); err != nil {
			t.Fatalf("replay: %v", err)
		}
		if doc.Check != s.Check {
			t.Skip("replay file is for another check")
		}
		var c C
		if err := json.Unmarshal(doc.Case, &c); err != nil {
			t.Fatalf("replay: case: %v", err)
		}
		o := SafeEval(s.Eval, c)
		handle[C](t, rec, s, c, o)
		return
	}
	rapid.Check(t, func(rt *rapid.T) {
		c := s.Gen(rt)
		o := SafeEval(s.Eval, c)
		handle[C](rt, rec, s, c, o)
	})
}

// RunFixed evaluates a fixed (enumerated) list of cases through the same bookkeeping.
func RunFixed[C any](t *testing.T, s Spec[C], cases func(yield func(C) bool)) *Rec {
	rec := NewRec(s.Prop, s.Check, s.Rule)
	defer rec.Flush()
	if rp := os.Getenv("VERIF_REPLAY"); rp != "" {
		b, err := os.ReadFile(rp)
		if err != nil {
			t.Fatalf("replay: %v", err)
		}
		var doc replayDoc
		json.Unmarshal(b, &doc)
		if doc.Check != s.Check {
			t.Skip("replay file is for another check")
		}
		var c C
		if err := json.Unmarshal(doc.Case, &c); err != nil {
			t.Fatalf("replay: case: %v", err)
		}
		handle[C](t, rec, s, c, SafeEval(s.Eval, c))
		return rec
	}
	cases(func(c C) bool {
		handle[C](t, rec, s, c, SafeEval(s.Eval, c))
		return !t.Failed()
	})
	return rec
}

// Witness re-checks one known finding on a fixed input. If the input still fails
// and the finding is listed, a KNOWN-FINDING line is emitted (through the recorder);
// if it is not listed, it is a violation; if it passes, nothing is printed.
func Witness(t *testing.T, rec *Rec, prop, key string, caseData interface{}, eval func() Outcome) {
	o := eval()
	if o.Fail == "" {
		rec.Class("witness-passes:"+key, 1)
		return
	}
	if what, ok := IsKnown(prop, key); ok {
		rec.Known(key, what)
		rec.Class("witness-fails:"+key, 1)
		return
	}
	path := rec.Violation(caseData, o.Fail, o.Expected, o.Observed, o.Trace)
	t.Fatalf("property %s witness %s fails and is not a listed known finding: %s\nreplay=%s", prop, key, o.Fail, path)
}
