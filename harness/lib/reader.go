package lib

import (
	"context"
	"errors"
	"time"

	"github.com/mimecast/dtail/internal/io/fs"
	"github.com/mimecast/dtail/internal/io/line"
	"github.com/mimecast/dtail/internal/lcontext"
	"github.com/mimecast/dtail/internal/regex"
)

// LineOut is one line emitted by a reader.
type LineOut struct {
	Content  []byte
	Count    uint64
	Perc     int
	SourceID string
}

// ErrReaderTimeout is returned when the reader did not finish in time.
var ErrReaderTimeout = errors.New("reader did not finish in time")

// RunCat runs the server's cat/grep file reader in-process and collects what it emits.
func RunCat(path, globID string, ltx lcontext.LContext, re regex.Regex, timeout time.Duration) ([]LineOut, []string, error) {
	serverMessages := make(chan string, 1000)
	lines := make(chan *line.Line, 100)
	ctx, cancel := context.WithCancel(context.Background())
	defer cancel()
	var out []LineOut
	collected := make(chan struct{})
	go func() {
		for l := range lines {
			out = append(out, LineOut{Content: append([]byte(nil), l.Content.Bytes()...), Count: l.Count, Perc: l.TransmittedPerc, SourceID: l.SourceID})
		}
		close(collected)
	}()
	errCh := make(chan error, 1)
	go func() {
		r := fs.NewCatFile(path, globID, serverMessages)
		errCh <- r.Start(ctx, ltx, lines, re)
	}()
	var err error
	select {
	case err = <-errCh:
	case <-time.After(timeout):
		cancel()
		select {
		case <-errCh:
		case <-time.After(2 * time.Second):
		}
		return nil, nil, ErrReaderTimeout
	}
	close(lines)
	<-collected
	var msgs []string
	for {
		select {
		case m := <-serverMessages:
			msgs = append(msgs, m)
			continue
		default:
		}
		break
	}
	return out, msgs, err
}
