package lib

import (
	"bytes"
	"context"
	"errors"
	"fmt"
	"os"
	"strings"
	"sync"
	"time"

	"github.com/mimecast/dtail/internal/config"
	"github.com/mimecast/dtail/internal/io/line"
	"github.com/mimecast/dtail/internal/mapr"
	maprclient "github.com/mimecast/dtail/internal/mapr/client"
	maprserver "github.com/mimecast/dtail/internal/mapr/server"
)

// ServerPart is the share of one server: its files (lines) and after how many pushed lines
// a partial result transmission is requested.
type ServerPart struct {
	Host           string
	Files          [][]string
	SerializeAfter []int
}

// MaprRun is the outcome of one in-process mapreduce run.
type MaprRun struct {
	Header       []string
	Rows         [][]string
	Table        string // plain table rendering
	TableCol     string // coloured table rendering
	Messages     int    // aggregate messages transmitted by all servers
	Partials     int    // serialisation requests honoured
	ClientErrors int    // messages the client-side aggregation refused (logged and skipped by the real handler)
}

var hostnameMu sync.Mutex

// MaprMessages runs the real server-side aggregators over parts and returns, per server, the aggregate
// messages it transmitted (and how many partial transmissions it honoured).
func MaprMessages(queryStr string, parts []ServerPart, timeout time.Duration) ([][]string, []int, error) {
	ctx, cancel := context.WithTimeout(context.Background(), timeout)
	defer cancel()

	type srv struct {
		agg  *maprserver.Aggregate
		msgs []string
		part ServerPart
		npar int
	}
	srvs := make([]*srv, len(parts))
	hostnameMu.Lock()
	old := os.Getenv("DTAIL_HOSTNAME_OVERRIDE")
	for i, p := range parts {
		os.Setenv("DTAIL_HOSTNAME_OVERRIDE", p.Host)
		agg, err := maprserver.NewAggregate(queryStr)
		if err != nil {
			os.Setenv("DTAIL_HOSTNAME_OVERRIDE", old)
			hostnameMu.Unlock()
			return nil, nil, fmt.Errorf("server NewAggregate: %w", err)
		}
		srvs[i] = &srv{agg: agg, part: p}
	}
	os.Setenv("DTAIL_HOSTNAME_OVERRIDE", old)
	hostnameMu.Unlock()

	var wg sync.WaitGroup
	errs := make(chan error, len(srvs))
	for _, s := range srvs {
		wg.Add(1)
		go func(s *srv) {
			defer wg.Done()
			msgCh := make(chan string, 16)
			collected := make(chan struct{})
			go func() {
				for m := range msgCh {
					s.msgs = append(s.msgs, m)
				}
				close(collected)
			}()
			// register every file's channel before any can be exhausted (C06 owns the registration race)
			chans := make([]chan *line.Line, len(s.part.Files))
			for i, f := range s.part.Files {
				chans[i] = make(chan *line.Line, len(f)+1)
				s.agg.NextLinesCh <- chans[i]
			}
			done := make(chan struct{})
			go func() { s.agg.Start(ctx, msgCh); close(done) }()
			pushed := 0
			serIdx := 0
			for i, f := range s.part.Files {
				for n, l := range f {
					buf := bytes.NewBufferString(l + "\n")
					chans[i] <- line.New(buf, uint64(n+1), 100, fmt.Sprintf("f%d", i))
					pushed++
					for serIdx < len(s.part.SerializeAfter) && s.part.SerializeAfter[serIdx] <= pushed {
						s.agg.Serialize(ctx)
						s.npar++
						serIdx++
					}
				}
				close(chans[i])
			}
			select {
			case <-done:
			case <-ctx.Done():
				errs <- errors.New("server aggregate did not finish in time")
			}
			close(msgCh)
			<-collected
		}(s)
	}
	wg.Wait()
	select {
	case e := <-errs:
		return nil, nil, e
	default:
	}
	msgs := make([][]string, len(srvs))
	npar := make([]int, len(srvs))
	for i, s := range srvs {
		msgs[i], npar[i] = s.msgs, s.npar
	}
	return msgs, npar, nil
}

// RunMapr drives the real server-side aggregators and the real client-side aggregation without transport.
func RunMapr(queryStr string, parts []ServerPart, timeout time.Duration) (*MaprRun, error) {
	q, err := mapr.NewQuery(queryStr)
	if err != nil {
		return nil, fmt.Errorf("client NewQuery: %w", err)
	}
	if q.Outfile == nil {
		return nil, errors.New("query needs an outfile")
	}
	os.Remove(q.Outfile.FilePath)
	os.Remove(q.Outfile.FilePath + ".tmp")
	global := mapr.NewGlobalGroupSet()
	msgs, npar, err := MaprMessages(queryStr, parts, timeout)
	if err != nil {
		return nil, err
	}
	run := &MaprRun{}
	for i := range parts {
		ca := maprclient.NewAggregate(parts[i].Host, q, global)
		for _, m := range msgs[i] {
			if err := ca.Aggregate(m); err != nil {
				run.ClientErrors++ // the client handler logs the error and carries on
			}
			run.Messages++
		}
		run.Partials += npar[i]
	}
	if err := global.WriteResult(q, true); err != nil {
		return nil, fmt.Errorf("WriteResult: %w", err)
	}
	b, err := os.ReadFile(q.Outfile.FilePath)
	if err != nil {
		return nil, err
	}
	os.Remove(q.Outfile.FilePath)
	os.Remove(q.Outfile.FilePath + ".query")
	lines := strings.Split(strings.TrimSuffix(string(b), "\n"), "\n")
	if len(lines) > 0 {
		run.Header = strings.Split(lines[0], ",")
		for _, l := range lines[1:] {
			run.Rows = append(run.Rows, strings.Split(l, ","))
		}
	}
	oldc := config.Client.TermColorsEnable
	config.Client.TermColorsEnable = false
	run.Table, _, _ = global.Result(q, -1)
	config.Client.TermColorsEnable = true
	run.TableCol, _, _ = global.Result(q, -1)
	config.Client.TermColorsEnable = oldc
	return run, nil
}
