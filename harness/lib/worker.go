package lib

import (
	"bufio"
	"encoding/json"
	"errors"
	"fmt"
	"io"
	"os"
	"os/exec"
	"sync"
	"syscall"
	"time"
)

// Worker is a crash-isolated child process (the test binary re-executed in worker mode)
// that executes cases sent over a pipe. Its death is the crash signal.
type Worker struct {
	cmd    *exec.Cmd
	in     io.WriteCloser
	out    *bufio.Reader
	mu     sync.Mutex
	Stderr string
	errBuf *tailBuf
}

type tailBuf struct {
	mu sync.Mutex
	b  []byte
}

func (t *tailBuf) Write(p []byte) (int, error) {
	t.mu.Lock()
	t.b = append(t.b, p...)
	if len(t.b) > 8192 {
		t.b = t.b[len(t.b)-8192:]
	}
	t.mu.Unlock()
	return len(p), nil
}

func (t *tailBuf) String() string { t.mu.Lock(); defer t.mu.Unlock(); return string(t.b) }

// ErrWorkerDead is returned when the worker process died or hung.
var ErrWorkerDead = errors.New("worker process died")

// StartWorker re-executes the current test binary with envVar=1 (TestMain must dispatch on it).
// ulimitKB > 0 caps the worker's address space.
func StartWorker(envVar string, ulimitKB int, extraEnv ...string) (*Worker, error) {
	exe, err := os.Executable()
	if err != nil {
		return nil, err
	}
	var cmd *exec.Cmd
	if ulimitKB > 0 {
		cmd = exec.Command("bash", "-c", fmt.Sprintf("ulimit -v %d; exec \"$0\"", ulimitKB), exe)
	} else {
		cmd = exec.Command(exe)
	}
	cmd.Env = append(append(os.Environ(), envVar+"=1"), extraEnv...)
	w := &Worker{cmd: cmd, errBuf: &tailBuf{}}
	cmd.Stderr = w.errBuf
	// requests on fd 3, replies on fd 4; stdin is /dev/null (code under test may read stdin), stdout is discarded
	reqR, reqW, err := os.Pipe()
	if err != nil {
		return nil, err
	}
	respR, respW, err := os.Pipe()
	if err != nil {
		return nil, err
	}
	cmd.ExtraFiles = []*os.File{reqR, respW}
	devnull, _ := os.Open(os.DevNull)
	cmd.Stdin = devnull
	cmd.Stdout = nil
	w.in = reqW
	w.out = bufio.NewReaderSize(respR, 1<<20)
	defer func() { reqR.Close(); respW.Close(); devnull.Close() }()
	cmd.SysProcAttr = &syscall.SysProcAttr{Setpgid: true, Pdeathsig: syscall.SIGKILL}
	if err := cmd.Start(); err != nil {
		return nil, err
	}
	return w, nil
}

// Call sends a request and waits for the reply (one JSON document per line each way).
func (w *Worker) Call(req interface{}, reply interface{}, timeout time.Duration) error {
	w.mu.Lock()
	defer w.mu.Unlock()
	b, err := json.Marshal(req)
	if err != nil {
		return err
	}
	if _, err := w.in.Write(append(b, '\n')); err != nil {
		return ErrWorkerDead
	}
	type res struct {
		line []byte
		err  error
	}
	ch := make(chan res, 1)
	go func() {
		l, err := w.out.ReadBytes('\n')
		ch <- res{l, err}
	}()
	select {
	case r := <-ch:
		if r.err != nil {
			return ErrWorkerDead
		}
		return json.Unmarshal(r.line, reply)
	case <-time.After(timeout):
		return fmt.Errorf("worker did not answer within %v: %w", timeout, ErrWorkerDead)
	}
}

// Pid of the worker.
func (w *Worker) Pid() int { return w.cmd.Process.Pid }

// Kill the worker.
func (w *Worker) Kill() {
	if w.cmd.Process != nil {
		syscall.Kill(-w.cmd.Process.Pid, syscall.SIGKILL)
	}
	w.in.Close()
	w.cmd.Wait()
}

// StderrTail returns the last bytes the worker wrote to stderr (a Go panic trace lands there).
func (w *Worker) StderrTail() string { return w.errBuf.String() }

// ServeWorker is the worker-side loop: handle is called for every request line; its result is written back.
func ServeWorker(handle func(req []byte) interface{}) {
	in := bufio.NewReaderSize(os.NewFile(3, "requests"), 1<<20)
	out := bufio.NewWriter(os.NewFile(4, "replies"))
	for {
		l, err := in.ReadBytes('\n')
		if err != nil {
			os.Exit(0)
		}
		resp := handle(l)
		b, _ := json.Marshal(resp)
		out.Write(append(b, '\n'))
		out.Flush()
	}
}
