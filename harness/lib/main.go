package lib

import (
	"fmt"
	"os"
	"runtime/debug"
	"testing"
)

// Main is the TestMain body shared by the property packages.
func Main(m *testing.M, init func()) {
	if init != nil {
		init()
	}
	code := m.Run()
	FlushAll()
	os.Exit(code)
}

// SafeEval runs eval and converts a panic on the calling goroutine into a failing outcome.
func SafeEval[C any](eval func(C) Outcome, c C) (o Outcome) {
	defer func() {
		if r := recover(); r != nil {
			o = Outcome{Fail: fmt.Sprintf("panic: %v", r), Observed: string(debug.Stack()), NonTrivial: true}
		}
	}()
	return eval(c)
}
