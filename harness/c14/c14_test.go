package c14

import (
	"fmt"
	"net"
	"os"
	"path/filepath"
	"regexp"
	"runtime"
	"strconv"
	"sync"
	"sync/atomic"
	"testing"
	"time"

	"github.com/mimecast/dtail/verif/lib"
	gossh "golang.org/x/crypto/ssh"
	"pgregory.net/rapid"
)

var (
	root    string
	userKey lib.KeyPair
	badKey  lib.KeyPair
	histN   int64
)

func TestMain(m *testing.M) {
	lib.Main(m, func() {
		cwd, _ := os.Getwd()
		root, _ = os.MkdirTemp(cwd, "c14-")
		userKey = lib.NewKeyPair("tester")
		badKey = lib.NewKeyPair("intruder")
	})
}

// ---- history ---------------------------------------------------------------------------

type step struct {
	Op  string // see ops
	Arg int    // connection index for closes, burst size
}

type history struct {
	Max   int
	Steps []step
}

var openOps = []string{"key-shell", "health-shell", "no-channel", "channel-no-shell", "multi-shell", "two-channels", "request-flood", "request-flood"}
var failOps = []string{"wrong-key", "wrong-password", "tcp-only", "garbage-banner"}

func genHistory(t *rapid.T) history {
	h := history{Max: rapid.SampledFrom([]int{1, 2, 3, 5}).Draw(t, "max")}
	n := rapid.IntRange(2, 14).Draw(t, "nsteps")
	for i := 0; i < n; i++ {
		var s step
		switch rapid.IntRange(0, 9).Draw(t, "opk") {
		case 0, 1, 2, 3:
			s.Op = rapid.SampledFrom(openOps).Draw(t, "open")
			if s.Op == "request-flood" {
				s.Arg = rapid.SampledFrom([]int{1, 3, 16, 17, 40, 200}).Draw(t, "flood")
			}
		case 4:
			s.Op = rapid.SampledFrom(failOps).Draw(t, "fail")
		case 5, 6:
			s.Op = "close"
			s.Arg = rapid.IntRange(0, 30).Draw(t, "which")
		case 7:
			s.Op = "abrupt-close"
			s.Arg = rapid.IntRange(0, 30).Draw(t, "which")
		case 8:
			s.Op = "burst"
			s.Arg = rapid.SampledFrom([]int{2, 3, 4, 6, 8, 12, 16}).Draw(t, "burst")
		default:
			s.Op = "probe"
		}
		h.Steps = append(h.Steps, s)
	}
	return h
}

// within runs fn with a deadline: the SSH client library can block for ever on a connection that is
// closed under its feet at the wrong moment (openChannel racing with the mux loop's exit).
func within(d time.Duration, fn func() error) error {
	ch := make(chan error, 1)
	go func() { ch <- fn() }()
	select {
	case err := <-ch:
		return err
	case <-time.After(d):
		return fmt.Errorf("no answer within %v", d)
	}
}

type conn struct {
	tcp    net.Conn
	client *gossh.Client
	kind   string
}

func dial(addr string, user string, auth gossh.AuthMethod) (net.Conn, *gossh.Client, error) {
	tcp, err := net.DialTimeout("tcp", addr, 5*time.Second)
	if err != nil {
		return nil, nil, err
	}
	cfg := &gossh.ClientConfig{User: user, Auth: []gossh.AuthMethod{auth}, HostKeyCallback: gossh.InsecureIgnoreHostKey(), Timeout: 10 * time.Second}
	tcp.SetDeadline(time.Now().Add(10 * time.Second))
	c, chans, reqs, err := gossh.NewClientConn(tcp, addr, cfg)
	if err != nil {
		tcp.Close()
		return nil, nil, err
	}
	tcp.SetDeadline(time.Time{})
	return tcp, gossh.NewClient(c, chans, reqs), nil
}

var statLine = regexp.MustCompile(`MAPREDUCE:STATS\|[^\n]*`)
var curRe = regexp.MustCompile(`currentConnections=(-?[0-9]+)`)
var lifeRe = regexp.MustCompile(`lifetimeConnections=([0-9]+)`)

// lastCount returns the last reported (current, lifetime) pair and the minimum current count ever reported.
func lastCount(s *lib.Server) (last int, min int, life int, seen bool) {
	for _, l := range statLine.FindAll(s.Log(), -1) {
		c := curRe.FindSubmatch(l)
		lf := lifeRe.FindSubmatch(l)
		if c == nil || lf == nil {
			continue
		}
		n, _ := strconv.Atoi(string(c[1]))
		life, _ = strconv.Atoi(string(lf[1]))
		if !seen || n < min {
			min = n
		}
		last = n
		seen = true
	}
	return
}

func evalHistory(h history) lib.Outcome {
	var o lib.Outcome
	id := atomic.AddInt64(&histN, 1)
	dir := filepath.Join(root, fmt.Sprintf("h%d", id%16))
	os.RemoveAll(dir)
	s, err := lib.StartServer(lib.ServerOpts{Dir: dir, Label: "srvc14", Cfg: lib.ServerCfg{MaxConnections: h.Max},
		Users: map[string][]string{"tester": {userKey.Authorized}}})
	if err != nil {
		return lib.Outcome{Inconclusive: "server: " + err.Error()}
	}
	defer s.Stop()
	defer os.RemoveAll(dir)

	var open []*conn // the model: authenticated, not yet closed
	lifetime := 0    // the model: logins that authenticated and got a slot so far
	var trace []string
	oddEnd := false
	o.Classes = []string{fmt.Sprintf("max=%d", h.Max)}
	fail := func(format string, a ...interface{}) lib.Outcome {
		o.Fail = fmt.Sprintf(format, a...)
		o.Trace = trace
		for _, c := range open {
			c.tcp.Close()
		}
		return o
	}
	keyAuth := gossh.PublicKeys(userKey.Signer)

	// wait until the server reports the model's size (it logs the count on every change)
	settle := func(what string) (int, bool) {
		deadline := time.Now().Add(5 * time.Second)
		var last int
		for {
			l, _, life, seen := lastCount(s)
			last = l
			if !seen {
				last = 0
			}
			if last == len(open) && life == lifetime {
				return last, true
			}
			if time.Now().After(deadline) {
				return last, false
			}
			time.Sleep(3 * time.Millisecond)
		}
	}

	floodArg := 0
	tryOpen := func(kind string) (bool, error) {
		user, auth := "tester", keyAuth
		if kind == "health-shell" {
			user, auth = "DTAIL-HEALTH", gossh.Password("DTAIL-HEALTH")
		}
		tcp, cl, err := dial(s.Addr(), user, auth)
		if err != nil {
			return false, err
		}
		c := &conn{tcp: tcp, client: cl, kind: kind}
		switch kind {
		case "key-shell", "health-shell":
			if sess, err := cl.NewSession(); err == nil {
				sess.StdinPipe()
				sess.Shell()
			}
		case "no-channel":
			oddEnd = true
		case "channel-no-shell":
			cl.NewSession()
			oddEnd = true
		case "multi-shell":
			if ch, reqs, err := cl.OpenChannel("session", nil); err == nil {
				go gossh.DiscardRequests(reqs)
				for i := 0; i < 3; i++ {
					ch.SendRequest("shell", true, nil)
				}
			}
			oddEnd = true
		case "request-flood":
			// a session that, with or without a shell, sends requests of kinds the server does not serve (what a stock ssh
			// client does: pty-req, env, window-change): the server ends such a connection itself
			if ch, reqs, err := cl.OpenChannel("session", nil); err == nil {
				go gossh.DiscardRequests(reqs)
				if floodArg%2 == 0 {
					ch.SendRequest("shell", true, nil)
				}
				kinds := []string{"window-change", "env", "pty-req", "exec", "subsystem"}
				for i := 0; i < floodArg; i++ {
					if _, err := ch.SendRequest(kinds[i%len(kinds)], false, []byte{0, 0, 0, 1, 'x'}); err != nil {
						break
					}
				}
			}
			oddEnd = true
			lifetime++
			// the server closes this connection; it never joins the set of open ones
			go func() { time.Sleep(300 * time.Millisecond); tcp.Close() }()
			return true, nil
		case "two-channels":
			for i := 0; i < 2; i++ {
				if ch, reqs, err := cl.OpenChannel("session", nil); err == nil {
					go gossh.DiscardRequests(reqs)
					ch.SendRequest("shell", true, nil)
				}
			}
			oddEnd = true
		}
		open = append(open, c)
		lifetime++
		return true, nil
	}

	for i, st := range h.Steps {
		trace = append(trace, fmt.Sprintf("%d:%s/%d open=%d", i, st.Op, st.Arg, len(open)))
		switch st.Op {
		case "key-shell", "health-shell", "no-channel", "channel-no-shell", "multi-shell", "two-channels", "request-flood":
			floodArg = st.Arg
			// quiesce first so that acceptance is decided by the model alone
			if _, ok := settle("before open"); !ok {
				last, _, _, _ := lastCount(s)
				return fail("step %d (%s): server reports currentConnections=%d but %d connections are open (before opening another)", i, st.Op, last, len(open))
			}
			wantOK := len(open) < h.Max
			ok, err := tryOpen(st.Op)
			if ok != wantOK {
				return fail("step %d (%s): login accepted=%v, want %v with %d of %d slots in use (err=%v)", i, st.Op, ok, wantOK, len(open), h.Max, err)
			}
		case "wrong-key":
			if _, cl, err := dial(s.Addr(), "tester", gossh.PublicKeys(badKey.Signer)); err == nil {
				cl.Close()
				return fail("step %d: login with an unlisted key was accepted", i)
			}
		case "wrong-password":
			if _, cl, err := dial(s.Addr(), "DTAIL-HEALTH", gossh.Password("nope")); err == nil {
				cl.Close()
				return fail("step %d: health login with a wrong password was accepted", i)
			}
		case "tcp-only":
			if c, err := net.DialTimeout("tcp", s.Addr(), 2*time.Second); err == nil {
				time.Sleep(2 * time.Millisecond)
				c.Close()
			}
		case "garbage-banner":
			if c, err := net.DialTimeout("tcp", s.Addr(), 2*time.Second); err == nil {
				c.Write([]byte("GET / HTTP/1.0\r\n\r\n\x00\xff garbage"))
				time.Sleep(2 * time.Millisecond)
				c.Close()
			}
		case "close", "abrupt-close":
			if len(open) == 0 {
				continue
			}
			k := st.Arg % len(open)
			c := open[k]
			if st.Op == "abrupt-close" {
				if tc, ok := c.tcp.(*net.TCPConn); ok {
					tc.SetLinger(0)
				}
				c.tcp.Close()
				oddEnd = true
			} else {
				c.client.Close()
			}
			open = append(open[:k], open[k+1:]...)
		case "burst":
			if _, ok := settle("before burst"); !ok {
				last, _, _, _ := lastCount(s)
				return fail("step %d (burst): server reports currentConnections=%d but %d connections are open", i, last, len(open))
			}
			var wg sync.WaitGroup
			var mu sync.Mutex
			var won []*conn
			for b := 0; b < st.Arg; b++ {
				wg.Add(1)
				go func() {
					defer wg.Done()
					tcp, cl, err := dial(s.Addr(), "tester", keyAuth)
					if err != nil {
						return
					}
					if err := within(20*time.Second, func() error {
						sess, err := cl.NewSession()
						if err != nil {
							return err
						}
						sess.StdinPipe()
						return sess.Shell()
					}); err != nil {
						cl.Close()
						tcp.Close()
						return
					}
					mu.Lock()
					won = append(won, &conn{tcp: tcp, client: cl, kind: "burst"})
					mu.Unlock()
				}()
			}
			wgDone := make(chan struct{})
			go func() { wg.Wait(); close(wgDone) }()
			select {
			case <-wgDone:
			case <-time.After(60 * time.Second):
				dump := s.DumpGoroutines()
				if len(dump) > 60000 {
					dump = dump[len(dump)-60000:]
				}
				buf := make([]byte, 1<<20)
				buf = buf[:runtime.Stack(buf, true)]
				o.Observed = map[string]string{"server": string(dump), "client": string(buf)}
				return fail("step %d: a burst login neither succeeded nor failed within 60 s (server goroutine dump attached)", i)
			}
			free := h.Max - len(open)
			open = append(open, won...)
			lifetime += len(won)
			o.Classes = append(o.Classes, "burst")
			if len(won) > free {
				return fail("step %d: a burst of %d simultaneous logins established %d sessions with only %d of %d slots free", i, st.Arg, len(won), free, h.Max)
			}
			if free > 0 && len(won) == 0 {
				return fail("step %d: a burst of %d logins with %d slots free established no session at all", i, st.Arg, free)
			}
		case "probe":
			if _, ok := settle("before probe"); !ok {
				last, _, _, _ := lastCount(s)
				return fail("step %d (probe): server reports currentConnections=%d but %d connections are open", i, last, len(open))
			}
			wantOK := len(open) < h.Max
			tcp, cl, err := dial(s.Addr(), "tester", keyAuth)
			if (err == nil) != wantOK {
				return fail("step %d: probe login accepted=%v, want %v with %d of %d slots in use (err=%v)", i, err == nil, wantOK, len(open), h.Max, err)
			}
			if err == nil {
				lifetime++
				cl.Close()
				tcp.Close()
			}
		}
		if last, ok := settle("after step"); !ok {
			return fail("after step %d (%s): server reports currentConnections=%d, but %d connections are actually open", i, st.Op, last, len(open))
		}
		if _, min, _, seen := lastCount(s); seen && min < 0 {
			return fail("after step %d (%s): the server reported a negative connection count (%d)", i, st.Op, min)
		}
	}
	// close everything: all slots must come back
	for _, c := range open {
		c.client.Close()
	}
	open = nil
	if last, ok := settle("final"); !ok {
		return fail("after closing every connection the server still reports currentConnections=%d", last)
	}
	if _, cl, err := dial(s.Addr(), "tester", keyAuth); err != nil {
		return fail("after closing every connection a new login is refused: %v", err)
	} else {
		cl.Close()
	}
	o.NonTrivial = oddEnd
	if oddEnd {
		o.Classes = append(o.Classes, "connection-ended-without-exactly-one-shell")
	}
	return o
}

func TestC14History(t *testing.T) {
	lib.Run(t, lib.Spec[history]{Prop: "C14", Check: "history",
		Rule: "a fresh server with MaxConnections in {1,2,3,5} and a generated history of 2..14 steps: logins (key+shell, health+shell, no channel, channel without shell, three shell requests on one channel, two channels with a shell each), failed logins (wrong key, wrong password, TCP connect-and-close, garbage banner), graceful and abrupt (RST) closes of any open connection, bursts of 2..8 simultaneous logins, probes; oracle after every step (polled <= 5 s): currentConnections in the server's STATS log == number of authenticated open connections, never negative, a login is accepted <=> a slot is free, a burst never establishes more sessions than free slots, at the end all slots come back; non-trivial = some connection authenticated and ended without exactly one shell request; distinct by history",
		Gen:  genHistory, Eval: evalHistory})
}
