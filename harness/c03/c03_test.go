package c03

import (
	"bytes"
	"fmt"
	"os"
	"path/filepath"
	"regexp"
	"testing"
	"time"

	"github.com/mimecast/dtail/internal/lcontext"
	"github.com/mimecast/dtail/internal/regex"
	"github.com/mimecast/dtail/verif/gen"
	"github.com/mimecast/dtail/verif/lib"
	"github.com/mimecast/dtail/verif/model"
	"pgregory.net/rapid"
)

var scratch string

func TestMain(m *testing.M) {
	lib.Main(m, func() {
		lib.InitDtailServer()
		scratch, _ = os.MkdirTemp("", "c03-")
	})
}

type grepCase struct {
	Pattern string
	Invert  bool
	Lines   [][]byte // without terminators
	FinalNL bool
	Before  int
	After   int
	Max     int
}

func (c grepCase) content() []byte {
	var b bytes.Buffer
	for i, l := range c.Lines {
		b.Write(l)
		if i < len(c.Lines)-1 || c.FinalNL {
			b.WriteByte('\n')
		}
	}
	return b.Bytes()
}

func isNoop(p string) bool { return p == "" || p == "." || p == ".*" }

// Expected computes the selected-line vector and the expected output indices from the property text.
func expected(c grepCase) (selected []bool, idx []int) {
	re := regexp.MustCompile(c.Pattern)
	selected = make([]bool, len(c.Lines))
	for i, l := range c.Lines {
		if isNoop(c.Pattern) {
			selected[i] = true
			continue
		}
		selected[i] = re.Match(l) != c.Invert
	}
	return selected, model.Grep(selected, c.Before, c.After, c.Max)
}

func evalGrep(c grepCase) lib.Outcome {
	var o lib.Outcome
	if isNoop(c.Pattern) && c.Invert {
		return lib.Outcome{Skip: true} // '' with --invert: the statement only fixes the non-inverted meaning
	}
	if len(c.Lines) > 0 && len(c.Lines[len(c.Lines)-1]) == 0 && !c.FinalNL {
		// a trailing empty "line" without terminator is no line at all
		c.Lines = c.Lines[:len(c.Lines)-1]
		c.FinalNL = true
		if len(c.Lines) == 0 {
			c.FinalNL = false
		}
	}
	selected, want := expected(c)
	pos, neg := false, false
	for _, s := range selected {
		if s {
			pos = true
		} else {
			neg = true
		}
	}
	structured := gen.Pattern{Expr: c.Pattern}.HasStructure()
	ctxUsed := c.Before > 0 || c.After > 0 || c.Max > 0
	o.NonTrivial = (pos && neg && ctxUsed) || (structured && pos && neg)
	o.Classes = []string{}
	if pos && neg {
		o.Classes = append(o.Classes, "both-polarities")
	}
	if ctxUsed {
		o.Classes = append(o.Classes, "context")
	}
	if c.Invert {
		o.Classes = append(o.Classes, "invert")
	}
	if structured {
		o.Classes = append(o.Classes, "structured-pattern")
	}
	if !c.FinalNL && len(c.Lines) > 0 {
		o.Classes = append(o.Classes, "no-final-newline")
	}

	f, err := os.CreateTemp(scratch, "grep-")
	if err != nil {
		return lib.Outcome{Inconclusive: err.Error()}
	}
	f.Write(c.content())
	f.Close()
	defer os.Remove(f.Name())

	flag := regex.Default
	if c.Invert {
		flag = regex.Invert
	}
	re, err := regex.New(c.Pattern, flag)
	if err != nil {
		return lib.Outcome{Skip: true}
	}
	ltx := lcontext.LContext{BeforeContext: c.Before, AfterContext: c.After, MaxCount: c.Max}
	out, _, err := lib.RunCat(f.Name(), filepath.Base(f.Name()), ltx, re, 20*time.Second)
	if err == lib.ErrReaderTimeout {
		o.Fail = "reader did not terminate within 20s"
		return o
	}
	if err != nil {
		o.Fail = "reader error: " + err.Error()
		return o
	}
	// compare
	var wantLines [][]byte
	for _, i := range want {
		l := append([]byte(nil), c.Lines[i]...)
		if i < len(c.Lines)-1 || c.FinalNL {
			l = append(l, '\n')
		}
		wantLines = append(wantLines, l)
	}
	ok := len(out) == len(wantLines)
	if ok {
		for i := range out {
			if !bytes.Equal(out[i].Content, wantLines[i]) {
				ok = false
				break
			}
		}
	}
	if !ok {
		var got []string
		for _, l := range out {
			got = append(got, string(l.Content))
		}
		var ws []string
		for _, l := range wantLines {
			ws = append(ws, string(l))
		}
		o.Fail = fmt.Sprintf("pattern %q invert=%v before=%d after=%d max=%d over %d lines: emitted %d lines, want %d", c.Pattern, c.Invert, c.Before, c.After, c.Max, len(c.Lines), len(out), len(wantLines))
		o.Expected, o.Observed = ws, got
		o.KnownKey = ""
	}
	return o
}

// ---- exhaustive small scope -------------------------------------------------------

func TestC03Exhaustive(t *testing.T) {
	maxLen := 6
	if lib.Thorough() {
		maxLen = 9
	}
	spec := lib.Spec[grepCase]{
		Prop: "C03", Check: "exhaustive",
		Rule: fmt.Sprintf("every selected/unselected vector of length 0..%d (lines m<i>/u<i>, pattern ^m, or ^u inverted) x before,after,max in {0,1,2,3,n+2} x final newline on the longest vectors; non-trivial = both polarities present and some context value > 0; distinct by full case", maxLen),
		Eval: evalGrep,
	}
	rec := lib.RunFixed(t, spec, func(yield func(grepCase) bool) {
		for n := 0; n <= maxLen; n++ {
			vals := []int{0, 1, 2, 3, n + 2}
			for bits := 0; bits < 1<<n; bits++ {
				var lines [][]byte
				for i := 0; i < n; i++ {
					if bits&(1<<i) != 0 {
						lines = append(lines, []byte(fmt.Sprintf("m%d", i)))
					} else {
						lines = append(lines, []byte(fmt.Sprintf("u%d", i)))
					}
				}
				for _, b := range vals {
					for _, a := range vals {
						for _, m := range vals {
							for _, inv := range []bool{false, true} {
								p := "^m"
								if inv {
									p = "^u"
								}
								if !yield(grepCase{Pattern: p, Invert: inv, Lines: lines, FinalNL: (bits+b+a)%3 != 0, Before: b, After: a, Max: m}) {
									return
								}
							}
						}
					}
				}
			}
		}
	})
	rec.SetExhaustive(true)
}

// ---- random -----------------------------------------------------------------------

func genGrep(t *rapid.T) grepCase {
	p := gen.Regex().Draw(t, "pattern")
	n := rapid.SampledFrom([]int{0, 1, 2, 5, 12, 40, 200}).Draw(t, "maxlines")
	lines := rapid.SliceOfN(rapid.Map(gen.LineFor(p), func(s string) []byte { return []byte(s) }), 0, n).Draw(t, "lines")
	ctxv := func(label string) int {
		switch rapid.IntRange(0, 9).Draw(t, label+"k") {
		case 0, 1, 2, 3:
			return 0
		case 4, 5, 6:
			return rapid.IntRange(1, 4).Draw(t, label)
		case 7:
			return rapid.IntRange(5, 300).Draw(t, label+"big")
		case 8:
			return 10000
		default:
			return -rapid.IntRange(1, 3).Draw(t, label+"neg")
		}
	}
	return grepCase{
		Pattern: p.Expr, Invert: rapid.IntRange(0, 3).Draw(t, "invert") == 0, Lines: lines,
		FinalNL: rapid.IntRange(0, 3).Draw(t, "finalnl") != 0,
		Before:  ctxv("before"), After: ctxv("after"), Max: ctxv("max"),
	}
}

func TestC03Random(t *testing.T) {
	lib.Run(t, lib.Spec[grepCase]{
		Prop: "C03", Check: "random",
		Rule: "RE2 pattern from a grammar (literals incl. space : ; , % = | and non-ASCII, classes, POSIX classes, \\d \\s \\w \\b, anchors, quantifiers, alternation, groups, (?i), and edge patterns like ^$ and [^a]) x 0..200 lines drawn from the pattern alphabet x before/after/max in {0, 1..4, 5..300, 10000, negative} x invert x final newline; non-trivial = both polarities and (context > 0 or anchor/class/alternation in the pattern); distinct by full case",
		Gen:  genGrep, Eval: evalGrep,
		SampleOf: func(c grepCase) interface{} {
			n := len(c.Lines)
			if n > 6 {
				n = 6
			}
			var ls []string
			for _, l := range c.Lines[:n] {
				ls = append(ls, string(l))
			}
			return map[string]interface{}{"pattern": c.Pattern, "invert": c.Invert, "before": c.Before, "after": c.After, "max": c.Max, "nlines": len(c.Lines), "first_lines": ls}
		},
	})
}
