package model

// SplitLong inserts a newline after every run of m consecutive non-newline bytes
// (the only difference dcat may introduce). m <= 0 means no limit.
func SplitLong(content []byte, m int) []byte {
	if m <= 0 {
		return append([]byte(nil), content...)
	}
	out := make([]byte, 0, len(content)+len(content)/m+1)
	run := 0
	for _, b := range content {
		out = append(out, b)
		if b == '\n' {
			run = 0
			continue
		}
		run++
		if run == m {
			out = append(out, '\n')
			run = 0
		}
	}
	return out
}

// Pieces splits a byte stream into lines, each including its terminator (the last may lack one).
func Pieces(stream []byte) [][]byte {
	var out [][]byte
	start := 0
	for i, b := range stream {
		if b == '\n' {
			out = append(out, stream[start:i+1])
			start = i + 1
		}
	}
	if start < len(stream) {
		out = append(out, stream[start:])
	}
	return out
}
