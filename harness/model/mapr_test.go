package model

import (
	"testing"

	"github.com/mimecast/dtail/verif/gen"
)

func TestEvalQueryHand(t *testing.T) {
	rows := []map[string]string{
		{"k": "a", "v": "5"}, {"k": "a", "v": "7"}, {"k": "b", "v": "1"}, {"k": "b", "v": "2.5"}, {"k": "b", "v": "-1"},
	}
	q := gen.Q{Select: []gen.Sel{{Agg: "count", Field: "v"}, {Agg: "sum", Field: "v"}, {Agg: "min", Field: "v"}, {Agg: "max", Field: "v"}, {Agg: "avg", Field: "v"}, {Field: "k"}, {Agg: "len", Field: "k"}},
		GroupBy: []gen.Field{{Name: "k"}}, HasOrder: true, OrderBy: 1}
	exp := EvalQuery(q, rows)
	if len(exp) != 2 {
		t.Fatalf("groups %d", len(exp))
	}
	got := [][]string{{"2", "12.000000", "5.000000", "7.000000", "6.000000", "a", "1.000000"}, {"3", "2.500000", "-1.000000", "2.500000", "0.833333", "b", "1.000000"}}
	if msg := CheckResult(q, exp, got); msg != "" {
		t.Fatal(msg)
	}
	// wrong order
	if msg := CheckResult(q, exp, [][]string{got[1], got[0]}); msg == "" {
		t.Fatal("ascending rows accepted for order by")
	}
	// wrong min
	bad := [][]string{{"2", "12.000000", "0.000000", "7.000000", "6.000000", "a", "1.000000"}, got[1]}
	if msg := CheckResult(q, exp, bad); msg == "" {
		t.Fatal("wrong min accepted")
	}
	// limit 1 must print the best
	q.HasLimit, q.Limit = true, 1
	if msg := CheckResult(q, exp, got[:1]); msg != "" {
		t.Fatal(msg)
	}
	if msg := CheckResult(q, exp, got[1:]); msg == "" {
		t.Fatal("limit 1 printing the worse group accepted")
	}
	// where + set
	q2 := gen.Q{Select: []gen.Sel{{Field: "$m"}, {Agg: "count", Field: "$line"}}, Where: []gen.Cond{{L: gen.Arg{Kind: "field", S: "v"}, Op: ">", R: gen.Arg{Kind: "float", S: "1"}}},
		Set: []gen.SetA{{Var: "$m", Kind: "func", Funcs: []string{"maskdigits"}, Arg: "v"}}}
	for _, r := range rows {
		r["$line"] = "x"
	}
	exp2 := EvalQuery(q2, rows)
	if len(exp2) != 2 { // "." (5,7) and "..." (2.5)
		t.Fatalf("groups %d %+v", len(exp2), exp2)
	}
	if msg := CheckResult(q2, exp2, [][]string{{".", "2"}, {"...", "1"}}); msg != "" {
		t.Fatal(msg)
	}
}
