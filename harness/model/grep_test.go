package model

import (
	"fmt"
	"testing"
)

func TestGrepModel(t *testing.T) {
	T, F := true, false
	cases := []struct {
		sel             []bool
		b, a, m         int
		want            string
	}{
		{[]bool{F, F, T, F, T}, 2, 1, 0, "[0 1 2 3 4]"},
		{[]bool{T, F, F, F, T}, 0, 1, 0, "[0 1 4]"},
		{[]bool{T, F, T, F, T}, 0, 3, 1, "[0 1]"},
		{[]bool{T, F, T, F, T}, 0, 3, 2, "[0 1 2 3]"},
		{[]bool{F, T, F, F, F}, 5, 0, 0, "[0 1]"},
		{[]bool{F, T, F, T, F}, 0, 0, 1, "[1]"},
		{[]bool{F, F, F}, 3, 3, 3, "[]"},
		{[]bool{T, T, T}, 1, 1, 2, "[0 1]"},
		{[]bool{T, F, F}, 0, 9, 1, "[0 1 2]"},
	}
	for _, c := range cases {
		if got := fmt.Sprint(Grep(c.sel, c.b, c.a, c.m)); got != c.want {
			t.Errorf("Grep(%v,%d,%d,%d) = %s want %s", c.sel, c.b, c.a, c.m, got, c.want)
		}
	}
}

func TestSplitLong(t *testing.T) {
	for _, c := range []struct {
		in   string
		m    int
		want string
	}{
		{"abcdef", 3, "abc\ndef\n"}, {"abcde", 3, "abc\nde"}, {"abc\n", 3, "abc\n\n"}, {"ab\ncd", 3, "ab\ncd"}, {"", 3, ""}, {"abcdefg\n", 2, "ab\ncd\nef\ng\n"}, {"abc", 0, "abc"},
	} {
		if got := string(SplitLong([]byte(c.in), c.m)); got != c.want {
			t.Errorf("SplitLong(%q,%d)=%q want %q", c.in, c.m, got, c.want)
		}
	}
}
