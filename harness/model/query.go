// Package model holds small reference models written from the documentation and
// the property statements, not from the code under test.
package model

import (
	"crypto/md5"
	"encoding/hex"
	"strconv"
	"strings"

	"github.com/mimecast/dtail/verif/gen"
)

func argFloat(a gen.Arg, m map[string]string) (float64, bool) {
	s := a.S
	if a.Kind == "field" {
		v, ok := m[a.S]
		if !ok {
			return 0, false
		}
		s = v
	}
	f, err := strconv.ParseFloat(s, 64)
	if err != nil {
		return 0, false
	}
	return f, true
}

func argString(a gen.Arg, m map[string]string) (string, bool) {
	if a.Kind == "field" {
		v, ok := m[a.S]
		return v, ok
	}
	return a.S, true
}

// EvalCond evaluates one where condition on a row.
func EvalCond(c gen.Cond, m map[string]string) bool {
	switch c.Op {
	case "==", "!=", "<", "<=", ">", ">=":
		l, ok1 := argFloat(c.L, m)
		r, ok2 := argFloat(c.R, m)
		if !ok1 || !ok2 {
			return false
		}
		switch c.Op {
		case "==":
			return l == r
		case "!=":
			return l != r
		case "<":
			return l < r
		case "<=":
			return l <= r
		case ">":
			return l > r
		default:
			return l >= r
		}
	}
	l, ok1 := argString(c.L, m)
	r, ok2 := argString(c.R, m)
	if !ok1 || !ok2 {
		return false
	}
	switch c.Op {
	case "eq":
		return l == r
	case "ne":
		return l != r
	case "contains":
		return strings.Contains(l, r)
	case "ncontains", "lacks":
		return !strings.Contains(l, r)
	case "hasprefix":
		return strings.HasPrefix(l, r)
	case "nhasprefix":
		return !strings.HasPrefix(l, r)
	case "hassuffix":
		return strings.HasSuffix(l, r)
	case "nhassuffix":
		return !strings.HasSuffix(l, r)
	}
	return false
}

// EvalWhere is the conjunction of all conditions.
func EvalWhere(conds []gen.Cond, m map[string]string) bool {
	for _, c := range conds {
		if !EvalCond(c, m) {
			return false
		}
	}
	return true
}

// MaskDigits / MD5 are the two documented set-functions.
func MaskDigits(s string) string {
	b := []byte(s)
	for i := range b {
		if b[i] >= '0' && b[i] <= '9' {
			b[i] = '.'
		}
	}
	return string(b)
}

func MD5(s string) string { h := md5.Sum([]byte(s)); return hex.EncodeToString(h[:]) }

// EvalSet applies the assignments in order to m. Variables whose value the
// documentation leaves open (a FIELD operand that the row does not carry) are
// returned in unspecified and must not be compared.
func EvalSet(sets []gen.SetA, m map[string]string) (unspecified map[string]bool) {
	unspecified = map[string]bool{}
	for _, a := range sets {
		switch a.Kind {
		case "float", "string":
			m[a.Var] = a.Arg
			delete(unspecified, a.Var)
		case "field", "bqfield", "func":
			v, ok := m[a.Arg]
			if !ok || unspecified[a.Arg] {
				unspecified[a.Var] = true
				// keep whatever: mark only
				m[a.Var] = ""
				continue
			}
			for i := len(a.Funcs) - 1; i >= 0; i-- {
				if a.Funcs[i] == "md5sum" {
					v = MD5(v)
				} else {
					v = MaskDigits(v)
				}
			}
			m[a.Var] = v
			delete(unspecified, a.Var)
		}
	}
	return
}
