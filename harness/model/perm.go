package model

import (
	"regexp"
	"strings"
)

// Allowed is the permission rule semantics of the property text: ordered rules, each an allow
// regex or a '!'-prefixed deny regex, optionally prefixed by "readfiles:"; the last matching
// rule decides; no match means deny; only regular files are ever allowed.
// ok=false means a rule's regex does not compile (outside the domain).
func Allowed(rules []string, resolvedPath string, isRegular bool) (allowed bool, ok bool) {
	if !isRegular {
		return false, true
	}
	allowed = false
	for _, r := range rules {
		r = strings.TrimPrefix(r, "readfiles:")
		deny := false
		if strings.HasPrefix(r, "!") {
			deny = true
			r = r[1:]
		}
		re, err := regexp.Compile(r)
		if err != nil {
			return false, false
		}
		if re.MatchString(resolvedPath) {
			allowed = !deny
		}
	}
	return allowed, true
}

// ---- a tiny file-system model with symlinks -----------------------------------------

// Node kinds.
const (
	KDir = iota
	KFile
	KLink
	KFifo
	KDev // stands for an existing non-regular file outside the tree (e.g. /dev/zero)
)

// Node of the model tree, keyed by absolute path.
type Node struct {
	Kind   int
	Target string // for KLink: link text (absolute or relative)
}

// Tree maps absolute clean paths to nodes. "/" and ancestors of the root are implicit directories.
type Tree struct {
	Nodes    map[string]Node
	External map[string]int // absolute paths outside the tree that exist, with their kind
}

func (t *Tree) lookup(p string) (Node, bool) {
	if n, ok := t.Nodes[p]; ok {
		return n, true
	}
	if k, ok := t.External[p]; ok {
		return Node{Kind: k}, true
	}
	// implicit ancestors
	for q := range t.Nodes {
		if strings.HasPrefix(q, p+"/") || p == "/" {
			return Node{Kind: KDir}, true
		}
	}
	for q := range t.External {
		if strings.HasPrefix(q, p+"/") {
			return Node{Kind: KDir}, true
		}
	}
	return Node{}, false
}

// Resolve walks path (absolute, may contain "." and ".." and symlinks anywhere) the way the
// kernel does and returns the final absolute path without symlinks, its kind, and ok=false if
// the path does not exist or loops.
func (t *Tree) Resolve(path string) (string, int, bool) {
	hops := 0
	var walk func(cur string, rest []string) (string, int, bool)
	walk = func(cur string, rest []string) (string, int, bool) {
		for len(rest) > 0 {
			c := rest[0]
			rest = rest[1:]
			switch c {
			case "", ".":
				continue
			case "..":
				if cur != "/" {
					cur = cur[:strings.LastIndex(cur, "/")]
					if cur == "" {
						cur = "/"
					}
				}
				continue
			}
			next := cur + "/" + c
			if cur == "/" {
				next = "/" + c
			}
			n, ok := t.lookup(next)
			if !ok {
				return "", 0, false
			}
			if n.Kind == KLink {
				hops++
				if hops > 40 {
					return "", 0, false
				}
				tgt := strings.Split(n.Target, "/")
				if strings.HasPrefix(n.Target, "/") {
					return walk("/", append(tgt, rest...))
				}
				return walk(cur, append(tgt, rest...))
			}
			if len(rest) > 0 && n.Kind != KDir {
				// a non-directory in the middle ("." / "" components are skipped above)
				onlyDots := true
				for _, r := range rest {
					if r != "" && r != "." {
						onlyDots = false
					}
				}
				if !onlyDots {
					return "", 0, false
				}
			}
			cur = next
		}
		n, ok := t.lookup(cur)
		if !ok {
			return "", 0, false
		}
		return cur, n.Kind, true
	}
	if !strings.HasPrefix(path, "/") {
		return "", 0, false
	}
	return walk("/", strings.Split(path, "/"))
}
