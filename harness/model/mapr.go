package model

import (
	"math"
	"sort"
	"strconv"
	"strings"

	"github.com/mimecast/dtail/verif/gen"
)

// Cell is one expected result cell.
type Cell struct {
	Kind  string          // num | count | oneof
	Num   float64         // for num / count
	OneOf map[string]bool // for last (any of the group's values) and len (length of any of them, formatted)
}

// ExpRow is one expected result row (one group).
type ExpRow struct {
	Samples int // rows of the group for which at least one select item was aggregated
	Key   string
	Cells []Cell
	Order float64 // value of the order key (0 if none)
}

type groupAcc struct {
	samples int
	cnt     []float64
	sum     []float64
	min     []float64
	max     []float64
	has     []bool
	cands   []map[string]bool
}

// EvalQuery evaluates q centrally over rows (field maps). It is exact only on the
// restricted domain (every selected field present, numeric where the aggregation needs it);
// Front-half results (where, set, grouping, last/len candidates) are valid on any domain.
func EvalQuery(q gen.Q, rows []map[string]string) []ExpRow {
	groups := map[string]*groupAcc{}
	var order []string
	groupBy := []string{q.Select[0].Field}
	if len(q.GroupBy) > 0 {
		groupBy = nil
		for _, g := range q.GroupBy {
			groupBy = append(groupBy, g.Name)
		}
	}
	for _, row := range rows {
		if !EvalWhere(q.Where, row) {
			continue
		}
		m := map[string]string{}
		for k, v := range row {
			m[k] = v
		}
		unspec := EvalSet(q.Set, m)
		for k := range unspec {
			// a FIELD operand the row lacks: dtail assigns the operand's name; keep that reading
			for _, a := range q.Set {
				if a.Var == k {
					v := a.Arg
					for i := len(a.Funcs) - 1; i >= 0; i-- {
						if a.Funcs[i] == "md5sum" {
							v = MD5(v)
						} else {
							v = MaskDigits(v)
						}
					}
					m[k] = v
				}
			}
		}
		var kp []string
		for _, g := range groupBy {
			kp = append(kp, m[g])
		}
		key := strings.Join(kp, ",")
		g, ok := groups[key]
		if !ok {
			n := len(q.Select)
			g = &groupAcc{cnt: make([]float64, n), sum: make([]float64, n), min: make([]float64, n), max: make([]float64, n), has: make([]bool, n), cands: make([]map[string]bool, n)}
			for i := range g.cands {
				g.cands[i] = map[string]bool{}
			}
			groups[key] = g
			order = append(order, key)
		}
		any := false
		for i, s := range q.Select {
			v, ok := m[s.Field]
			if !ok {
				continue
			}
			switch s.Agg {
			case "count":
				g.cnt[i]++
				any = true
			case "", "last":
				g.cands[i][v] = true
				any = true
			case "len":
				g.cands[i][strconv.FormatFloat(float64(len(v)), 'f', 6, 64)] = true
				any = true
			default:
				f, err := strconv.ParseFloat(v, 64)
				if err != nil {
					continue
				}
				any = true
				g.sum[i] += f
				if !g.has[i] || f < g.min[i] {
					g.min[i] = f
				}
				if !g.has[i] || f > g.max[i] {
					g.max[i] = f
				}
				g.has[i] = true
			}
		}
		if any {
			g.samples++
		}
	}
	var out []ExpRow
	for _, key := range order {
		g := groups[key]
		r := ExpRow{Key: key, Samples: g.samples}
		for i, s := range q.Select {
			var c Cell
			switch s.Agg {
			case "count":
				c = Cell{Kind: "count", Num: g.cnt[i]}
			case "sum":
				c = Cell{Kind: "num", Num: g.sum[i]}
			case "min":
				c = Cell{Kind: "num", Num: g.min[i]}
			case "max":
				c = Cell{Kind: "num", Num: g.max[i]}
			case "avg":
				c = Cell{Kind: "num", Num: g.sum[i] / float64(g.samples)}
			case "len":
				c = Cell{Kind: "oneof", OneOf: g.cands[i]}
				if len(c.OneOf) == 0 {
					c.OneOf = map[string]bool{"0.000000": true}
				}
			default:
				c = Cell{Kind: "oneof", OneOf: g.cands[i]}
				if len(c.OneOf) == 0 {
					c.OneOf = map[string]bool{"": true}
				}
			}
			r.Cells = append(r.Cells, c)
		}
		out = append(out, r)
	}
	return out
}

// NumTol is the tolerance for comparing printed floats (6 decimals) with model values.
func NumTol(x float64) float64 { return 2e-6 + 1e-9*math.Abs(x) }

// CellMatches reports whether the printed value got matches the expected cell.
func CellMatches(c Cell, got string) bool {
	switch c.Kind {
	case "any":
		return true
	case "oneof":
		return c.OneOf[got]
	case "count":
		n, err := strconv.ParseFloat(got, 64)
		return err == nil && n == c.Num && !strings.Contains(got, ".")
	default:
		f, err := strconv.ParseFloat(got, 64)
		if err != nil {
			return false
		}
		if math.IsNaN(c.Num) {
			return math.IsNaN(f)
		}
		return math.Abs(f-c.Num) <= NumTol(c.Num)
	}
}

// OrderValue is the numeric value dtail orders a printed cell by.
func OrderValue(got string) float64 {
	f, err := strconv.ParseFloat(got, 64)
	if err != nil {
		return 0
	}
	return f
}

// MatchRows finds an injective assignment of got rows to expected rows such that every cell matches.
// It returns the index of the expected row for every got row, or nil if there is none.
func MatchRows(exp []ExpRow, got [][]string) []int {
	adj := make([][]int, len(got))
	for i, gr := range got {
		for j, er := range exp {
			if len(gr) != len(er.Cells) {
				continue
			}
			ok := true
			for k, c := range er.Cells {
				if !CellMatches(c, gr[k]) {
					ok = false
					break
				}
			}
			if ok {
				adj[i] = append(adj[i], j)
			}
		}
	}
	matchExp := make([]int, len(exp))
	for i := range matchExp {
		matchExp[i] = -1
	}
	var try func(i int, seen []bool) bool
	try = func(i int, seen []bool) bool {
		for _, j := range adj[i] {
			if seen[j] {
				continue
			}
			seen[j] = true
			if matchExp[j] < 0 || try(matchExp[j], seen) {
				matchExp[j] = i
				return true
			}
		}
		return false
	}
	for i := range got {
		if !try(i, make([]bool, len(exp))) {
			return nil
		}
	}
	res := make([]int, len(got))
	for j, i := range matchExp {
		if i >= 0 {
			res[i] = j
		}
	}
	return res
}

// CheckResult validates printed result rows against the expected groups: multiset equality without
// limit, a valid top-k with limit, and monotone order keys. It returns "" or a description.
func CheckResult(q gen.Q, exp []ExpRow, got [][]string) string {
	n := len(exp)
	wantRows := n
	if q.HasLimit && q.Limit >= 0 && q.Limit < n {
		wantRows = q.Limit
	}
	if len(got) != wantRows {
		return "result has " + strconv.Itoa(len(got)) + " rows, want " + strconv.Itoa(wantRows) + " (" + strconv.Itoa(n) + " groups)"
	}
	m := MatchRows(exp, got)
	if m == nil {
		return "result rows cannot be matched one-to-one to the expected groups"
	}
	if q.HasOrder {
		col := q.OrderBy
		keys := make([]float64, len(got))
		for i, r := range got {
			keys[i] = OrderValue(r[col])
		}
		for i := 1; i < len(keys); i++ {
			tol := NumTol(keys[i])
			if !q.Reverse && keys[i] > keys[i-1]+tol {
				return "order by: keys not descending at row " + strconv.Itoa(i)
			}
			if q.Reverse && keys[i] < keys[i-1]-tol {
				return "rorder by: keys not ascending at row " + strconv.Itoa(i)
			}
		}
		if wantRows < n && wantRows > 0 {
			// top-k: every expected group strictly better than the worst printed key must be printed. Which printed row
			// belongs to which group is not always observable (wildcard cells, no key column), so the rule is stated on
			// counts: the groups that are definitely better than the worst printed key cannot outnumber the printed
			// rows that are better than it.
			worst := keys[len(keys)-1]
			var expKeys []float64
			better := 0
			for _, er := range exp {
				c := er.Cells[col]
				var k float64
				switch c.Kind {
				case "any":
					continue
				case "oneof":
					// ambiguous unless there is a single candidate
					if len(c.OneOf) != 1 {
						continue
					}
					for s := range c.OneOf {
						k = OrderValue(s)
					}
				default:
					k = c.Num
				}
				expKeys = append(expKeys, k)
				tol := NumTol(k)
				if (!q.Reverse && k > worst+tol) || (q.Reverse && k < worst-tol) {
					better++
				}
			}
			printedBetter := 0
			for _, k := range keys {
				tol := NumTol(k)
				if (!q.Reverse && k > worst+tol) || (q.Reverse && k < worst-tol) {
					printedBetter++
				}
			}
			if better > printedBetter {
				return "limit: " + strconv.Itoa(better) + " groups have a better order key than the last printed row, only " + strconv.Itoa(printedBetter) + " such rows are printed"
			}
			sort.Float64s(expKeys)
		}
	}
	return ""
}

// Structure relaxes expected rows to what is well-defined on any table: the groups that exist
// (those with at least one aggregated item), their counts and their last/len candidates; sums,
// minima, maxima and averages become wildcards.
func Structure(exp []ExpRow) []ExpRow {
	var out []ExpRow
	for _, e := range exp {
		if e.Samples == 0 {
			continue // nothing aggregated: dtail transmits no data for such a group
		}
		r := ExpRow{Key: e.Key, Samples: e.Samples}
		for _, c := range e.Cells {
			if c.Kind == "num" {
				r.Cells = append(r.Cells, Cell{Kind: "any"})
			} else {
				r.Cells = append(r.Cells, c)
			}
		}
		out = append(out, r)
	}
	return out
}
