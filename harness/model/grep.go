package model

// Grep returns the indices of the lines that grep semantics prescribe for a file whose
// i-th line is selected iff selected[i]: the first max selected lines (all if max <= 0),
// each with up to before preceding and after following lines; the trailing context of the
// max-th selected line stops before the next selected line. Sorted, each index once.
func Grep(selected []bool, before, after, max int) []int {
	if before < 0 {
		before = 0
	}
	if after < 0 {
		after = 0
	}
	n := len(selected)
	var sel []int
	for i, s := range selected {
		if s {
			sel = append(sel, i)
		}
	}
	// Nothing at or after the (max+1)-th selected line is ever output, not even as
	// trailing context of an earlier selected line.
	cutoff := n
	if max > 0 && len(sel) > max {
		cutoff = sel[max]
		sel = sel[:max]
	}
	out := make([]bool, n)
	for _, s := range sel {
		lo := s - before
		if lo < 0 {
			lo = 0
		}
		for j := lo; j <= s; j++ {
			out[j] = true
		}
		for j := s + 1; j < cutoff && j <= s+after; j++ {
			out[j] = true
		}
	}
	var idx []int
	for i, o := range out {
		if o {
			idx = append(idx, i)
		}
	}
	return idx
}
