// Package c15 checks property C15: a mapreduce outfile is never observable half-written.
//
// The real dmap binary reads its log lines from a pipe the harness feeds slowly (so a run spans
// several "interval 1" periods and writes interim results), while a sampler reads <outfile> and
// <outfile>.query continuously. The child is killed at a generated instant (SIGKILL) or, through the
// verif hooks, at the k-th hit of one of the outfile/queryfile write steps. Histories of several runs
// against the same path mix append / non-append and killed / clean runs.
package c15

import (
	"bytes"
	"fmt"
	"os"
	"os/exec"
	"path/filepath"
	"sort"
	"strings"
	"sync"
	"sync/atomic"
	"syscall"
	"testing"
	"time"

	"github.com/mimecast/dtail/verif/gen"
	"github.com/mimecast/dtail/verif/lib"
	"github.com/mimecast/dtail/verif/model"
	"pgregory.net/rapid"
)

var (
	root  string
	caseN int64
)

func TestMain(m *testing.M) {
	lib.Main(m, func() {
		cwd, _ := os.Getwd()
		root, _ = os.MkdirTemp(cwd, "c15-")
	})
}

// ---- case ------------------------------------------------------------------------

// Data is the table of log lines of a history: NLines lines over NGroups groups.
type Data struct {
	NGroups int
	NLines  int
	Seed    int
}

func (d Data) rows() []gen.Row {
	var rows []gen.Row
	for i := 0; i < d.NLines; i++ {
		g := (i*7 + d.Seed) % d.NGroups
		v := (i*13+d.Seed*3)%97 - 20
		w := (i*5 + d.Seed) % 11
		rows = append(rows, gen.Row{Time: "1002-071143", Keys: []string{"k", "v", "w"}, Vals: []string{fmt.Sprintf("g%d", g), fmt.Sprint(v), fmt.Sprintf("%d.5", w)}})
	}
	return rows
}

func (d Data) table() gen.Table {
	return gen.Table{Format: "default", Name: "STATS", Keys: []string{"k", "v", "w"}, NumKeys: []string{"v", "w"}, Clean: true, Rows: d.rows()}
}

// Kill says how a run ends.
type Kill struct {
	Kind  string // "" clean exit | "time" SIGKILL at AtMs after start | "hook" SIGKILL itself at the K-th hit of Point
	AtMs  int
	Point string
	K     int
}

// Run is one dmap run of a history.
type Run struct {
	Append  bool
	Query   int   // index into Case.Queries
	Upto    int   // number of lines of the table this run is fed
	Chunks  []int // cut points (fractions in 1/100 of Upto) at which the feeding pauses
	Delays  []int // ms before each chunk (len = len(Chunks)+1)
	Kill    Kill
	EndWait int // ms between the last chunk and closing stdin
	// SlowRowUs > 0: every result row written takes this long (verif hook sleep), so that a report lasts long
	// enough to overlap with the next interval tick / the final report
	SlowRowUs int
	Procs     int // GOMAXPROCS of the dmap process (0 = default)
}

// Case is a history of runs against one outfile path.
type Case struct {
	Data    Data
	Queries []gen.Q
	Runs    []Run
	// PreExisting: the outfile holds this (foreign, complete) content before the first run ("" = absent).
	PreExisting string
}

var killPoints = []string{"queryfile.write", "queryfile.rename", "outfile.open", "outfile.header", "outfile.row", "outfile.rows.done", "outfile.rename", "outfile.renamed"}

func genQuery(t *rapid.T, tb gen.Table) gen.Q {
	q := gen.MaprQuery(tb, false).Draw(t, "query")
	q.HasIntvl, q.Interval = true, 1
	return q
}

func genRun(t *rapid.T, d Data, nq int, forceKill string) Run {
	var r Run
	r.Append = rapid.IntRange(0, 2).Draw(t, "append") == 0
	r.Query = rapid.IntRange(0, nq-1).Draw(t, "q")
	r.Upto = d.NLines
	if rapid.IntRange(0, 3).Draw(t, "partial-input") == 0 {
		r.Upto = rapid.IntRange(1, d.NLines).Draw(t, "upto")
	}
	nch := rapid.IntRange(1, 4).Draw(t, "nchunks")
	for i := 0; i < nch; i++ {
		r.Chunks = append(r.Chunks, rapid.IntRange(1, 99).Draw(t, "cut"))
	}
	sort.Ints(r.Chunks)
	for i := 0; i <= nch; i++ {
		r.Delays = append(r.Delays, rapid.SampledFrom([]int{0, 200, 600, 900, 1100, 1400}).Draw(t, "delay"))
	}
	r.EndWait = rapid.SampledFrom([]int{0, 0, 100, 450, 950}).Draw(t, "endwait")
	total := r.EndWait
	for _, d := range r.Delays {
		total += d
	}
	kind := forceKill
	if kind == "" {
		kind = rapid.SampledFrom([]string{"", "", "time", "time", "hook", "hook"}).Draw(t, "kill")
	}
	switch kind {
	case "time":
		// anywhere in the run, with emphasis on the end (final write + rename)
		if rapid.Bool().Draw(t, "late") {
			r.Kill = Kill{Kind: "time", AtMs: total + rapid.IntRange(0, 120).Draw(t, "after-end")}
		} else {
			r.Kill = Kill{Kind: "time", AtMs: rapid.IntRange(0, total+50).Draw(t, "at")}
		}
	case "hook":
		p := rapid.SampledFrom(killPoints).Draw(t, "point")
		k := rapid.SampledFrom([]int{1, 1, 2, 2, 3, 4}).Draw(t, "k")
		if p == "outfile.row" {
			// the number of result rows depends on the grouping the query draws: bias towards small k
			max := rapid.SampledFrom([]int{1, 2, 5, d.NGroups, 2*d.NGroups + 1, 3*d.NGroups + 2}).Draw(t, "krow-max")
			k = rapid.IntRange(1, max).Draw(t, "krow")
		}
		if p == "outfile.rename" || p == "outfile.renamed" {
			k = 1
		}
		r.Kill = Kill{Kind: "hook", Point: p, K: k}
	}
	r.Procs = rapid.SampledFrom([]int{0, 0, 0, 1, 2}).Draw(t, "procs")
	if rapid.Bool().Draw(t, "slowrows") {
		// aim at a report duration of 0.1 .. 1.3 s (around the 1 s interval, so that reports overlap ticks and each other)
		target := rapid.SampledFrom([]int{100, 300, 600, 900, 900, 1300, 1300}).Draw(t, "report-ms")
		r.SlowRowUs = target * 1000 / d.NGroups
		if r.SlowRowUs < 50 {
			r.SlowRowUs = 50
		}
	}
	return r
}

func genCase(t *rapid.T) Case {
	var c Case
	c.Data.NGroups = rapid.SampledFrom([]int{1, 3, 20, 150, 600, 1500}).Draw(t, "ngroups")
	c.Data.NLines = c.Data.NGroups * rapid.IntRange(1, 4).Draw(t, "lines-per-group")
	if c.Data.NLines < 4 {
		c.Data.NLines = 4
	}
	c.Data.Seed = rapid.IntRange(0, 50).Draw(t, "seed")
	tb := c.Data.table()
	nq := rapid.IntRange(1, 2).Draw(t, "nqueries")
	for i := 0; i < nq; i++ {
		c.Queries = append(c.Queries, genQuery(t, tb))
	}
	nr := rapid.IntRange(1, 3).Draw(t, "nruns")
	for i := 0; i < nr; i++ {
		c.Runs = append(c.Runs, genRun(t, c.Data, nq, ""))
	}
	if rapid.IntRange(0, 2).Draw(t, "preexisting") == 0 {
		c.PreExisting = "count($line),k\n7,earlier\n3,result\n"
	}
	return c
}

// ---- running ---------------------------------------------------------------------

type sample struct {
	AtMs     int
	Out      string
	OutOK    bool // file existed
	Query    string
	QueryOK  bool
}

type obs struct {
	Samples  []sample
	Exit     int
	Killed   bool // died by SIGKILL
	TimedOut bool
	Trace    map[string]int
	Stderr   string
	Final    sample
	WallMs   int
}

func readState(p string) (s sample) {
	// outfile first, query file second: the query file is written before the outfile in every report
	if b, err := os.ReadFile(p); err == nil {
		s.Out, s.OutOK = string(b), true
	}
	if b, err := os.ReadFile(p + ".query"); err == nil {
		s.Query, s.QueryOK = string(b), true
	}
	return
}

func runOnce(dir, out, queryStr string, lines []string, r Run, idx int) obs {
	var o obs
	tracePath := filepath.Join(dir, fmt.Sprintf("trace-%d", idx))
	os.Remove(tracePath)
	cmd := exec.Command(lib.Bin("dmap"), "--noColor", "--logLevel", "error", "--query", queryStr)
	cmd.Dir = dir
	cmd.Env = []string{"HOME=" + dir, "PATH=/usr/bin:/bin", "USER=root", "VHOOK_TRACE=" + tracePath}
	if r.Procs > 0 {
		cmd.Env = append(cmd.Env, fmt.Sprintf("GOMAXPROCS=%d", r.Procs))
	}
	var sched []string
	if r.Kill.Kind == "hook" {
		sched = append(sched, fmt.Sprintf("%s=kill:%d", r.Kill.Point, r.Kill.K))
	}
	if r.SlowRowUs > 0 && !(r.Kill.Kind == "hook" && r.Kill.Point == "outfile.row") {
		sched = append(sched, fmt.Sprintf("outfile.row=sleep:%dus", r.SlowRowUs))
	}
	if len(sched) > 0 {
		cmd.Env = append(cmd.Env, "VHOOK_SCHED="+strings.Join(sched, ";"))
	}
	stdin, err := cmd.StdinPipe()
	if err != nil {
		o.Stderr = err.Error()
		o.Exit = -1
		return o
	}
	var se, so bytes.Buffer
	cmd.Stderr, cmd.Stdout = &se, &so
	cmd.SysProcAttr = &syscall.SysProcAttr{Setpgid: true, Pdeathsig: syscall.SIGKILL}
	start := time.Now()
	if err := cmd.Start(); err != nil {
		o.Stderr = err.Error()
		o.Exit = -1
		return o
	}
	// sampler
	stop := make(chan struct{})
	var swg sync.WaitGroup
	swg.Add(1)
	go func() {
		defer swg.Done()
		var last sample
		first := true
		for {
			s := readState(out)
			if first || s.Out != last.Out || s.OutOK != last.OutOK || s.Query != last.Query || s.QueryOK != last.QueryOK {
				s.AtMs = int(time.Since(start).Milliseconds())
				o.Samples = append(o.Samples, s)
				last, first = s, false
			}
			select {
			case <-stop:
				return
			default:
			}
			time.Sleep(150 * time.Microsecond)
		}
	}()
	exited := make(chan struct{})
	go func() { cmd.Wait(); close(exited) }()
	var killTimer *time.Timer
	if r.Kill.Kind == "time" {
		killTimer = time.AfterFunc(time.Duration(r.Kill.AtMs)*time.Millisecond, func() { syscall.Kill(cmd.Process.Pid, syscall.SIGKILL) })
	}
	// feed
	cuts := []int{0}
	for _, c := range r.Chunks {
		cuts = append(cuts, len(lines)*c/100)
	}
	cuts = append(cuts, len(lines))
	go func() {
		defer stdin.Close()
		for i := 0; i+1 < len(cuts); i++ {
			select {
			case <-exited:
				return
			case <-time.After(time.Duration(r.Delays[i]) * time.Millisecond):
			}
			var sb strings.Builder
			for _, l := range lines[cuts[i]:cuts[i+1]] {
				sb.WriteString(l)
				sb.WriteByte('\n')
			}
			if _, err := stdin.Write([]byte(sb.String())); err != nil {
				return
			}
		}
		select {
		case <-exited:
		case <-time.After(time.Duration(r.EndWait) * time.Millisecond):
		}
	}()
	select {
	case <-exited:
	case <-time.After(60 * time.Second):
		o.TimedOut = true
		syscall.Kill(-cmd.Process.Pid, syscall.SIGKILL)
		<-exited
	}
	if killTimer != nil {
		killTimer.Stop()
	}
	// one more look after the death, then stop the sampler
	time.Sleep(2 * time.Millisecond)
	close(stop)
	swg.Wait()
	o.Final = readState(out)
	o.WallMs = int(time.Since(start).Milliseconds())
	if ws, ok := cmd.ProcessState.Sys().(syscall.WaitStatus); ok {
		if ws.Signaled() {
			o.Killed = true
			o.Exit = -int(ws.Signal())
		} else {
			o.Exit = ws.ExitStatus()
		}
	}
	o.Stderr = se.String()
	if len(o.Stderr) > 2000 {
		o.Stderr = o.Stderr[:2000]
	}
	o.Trace = map[string]int{}
	if b, err := os.ReadFile(tracePath); err == nil {
		for _, l := range strings.Split(string(b), "\n") {
			if f := strings.Fields(l); len(f) == 2 {
				o.Trace[f[1]]++
			}
		}
	}
	os.Remove(tracePath)
	return o
}

// ---- oracle ----------------------------------------------------------------------

func header(q gen.Q) string {
	var h []string
	for _, s := range q.Select {
		h = append(h, s.Storage())
	}
	return strings.Join(h, ",") + "\n"
}

func splitRows(body string) ([][]string, bool) {
	if body == "" {
		return nil, true
	}
	if !strings.HasSuffix(body, "\n") {
		return nil, false
	}
	var rows [][]string
	for _, l := range strings.Split(strings.TrimSuffix(body, "\n"), "\n") {
		rows = append(rows, strings.Split(l, ","))
	}
	return rows, true
}

// completeResult says whether content is the complete final result of q over rows: header line, exactly the
// expected rows (as the reference model evaluates them), each terminated by a newline.
func completeResult(content string, q gen.Q, exp []model.ExpRow) string {
	h := header(q)
	if !strings.HasPrefix(content, h) {
		return fmt.Sprintf("does not start with the header %q", h)
	}
	rows, ok := splitRows(content[len(h):])
	if !ok {
		return "last row is not terminated"
	}
	for i, r := range rows {
		if len(r) != len(q.Select) {
			return fmt.Sprintf("row %d has %d columns, want %d", i+1, len(r), len(q.Select))
		}
	}
	return model.CheckResult(q, exp, rows)
}

func clip(s string) string {
	if len(s) > 600 {
		return s[:300] + fmt.Sprintf(" ...[%d bytes]... ", len(s)) + s[len(s)-200:]
	}
	return s
}

type runResult struct {
	fail     string
	expected interface{}
	observed interface{}
	classes  []string
	midWrite bool // the kill landed between the first and the last write step of a report
	interims int
	inconc   string
}

// checkRun applies the C15 oracle to one run. start is the state of the path before the run.
func checkRun(c Case, ri int, start sample, queryStr string, o obs, earlierQueries map[string]bool) runResult {
	var rr runResult
	r := c.Runs[ri]
	q := c.Queries[r.Query]
	if o.TimedOut {
		rr.inconc = fmt.Sprintf("run %d: dmap still running 60 s after its input ended", ri)
		return rr
	}
	clean := !o.Killed && o.Exit == 0
	if !o.Killed && o.Exit != 0 {
		rr.fail = fmt.Sprintf("run %d: dmap exited with status %d: %s", ri, o.Exit, o.Stderr)
		return rr
	}
	switch {
	case r.Kill.Kind == "hook" && o.Killed:
		rr.classes = append(rr.classes, "killed-at:"+r.Kill.Point)
	case r.Kill.Kind == "hook":
		rr.classes = append(rr.classes, "hook-kill-not-reached")
	case r.Kill.Kind == "time" && o.Killed:
		rr.classes = append(rr.classes, "killed-by-timer")
	case r.Kill.Kind == "time":
		rr.classes = append(rr.classes, "timer-kill-after-exit")
	default:
		rr.classes = append(rr.classes, "clean-run")
	}
	if r.SlowRowUs > 0 {
		rr.classes = append(rr.classes, "slowed-row-writes")
	}
	if r.Append {
		rr.classes = append(rr.classes, "append")
	} else {
		rr.classes = append(rr.classes, "non-append")
	}
	rr.interims = o.Trace["outfile.open"]
	if clean {
		rr.interims--
	}
	if rr.interims > 0 {
		rr.classes = append(rr.classes, "interim-results-written")
	}
	if o.Killed && o.Trace["outfile.open"] > o.Trace["outfile.rows.done"] || o.Killed && o.Trace["queryfile.write"] > o.Trace["outfile.open"] ||
		o.Killed && r.Kill.Kind == "hook" && (r.Kill.Point == "outfile.rename" || r.Kill.Point == "outfile.rows.done" || r.Kill.Point == "outfile.renamed") {
		rr.midWrite = true
		rr.classes = append(rr.classes, "killed-inside-a-report")
	}

	// expected final result of this run: the model's evaluation of the lines fed
	tb := c.Data.table()
	var rows []map[string]string
	for _, row := range tb.Rows[:r.Upto] {
		rows = append(rows, tb.Fields(row))
	}
	exp := model.EvalQuery(q, rows)
	h := header(q)

	all := append(append([]sample{}, o.Samples...), o.Final)
	// ---- the .query file: absent, an earlier run's query text, or this run's, never anything else
	for _, s := range all {
		if !s.QueryOK {
			if start.QueryOK {
				rr.fail = fmt.Sprintf("run %d: the .query file disappeared", ri)
				return rr
			}
			continue
		}
		if s.Query != queryStr && !(start.QueryOK && s.Query == start.Query) && !earlierQueries[s.Query] {
			rr.fail = fmt.Sprintf("run %d: the .query file holds neither this run's query text nor an earlier one (torn or wrong)", ri)
			rr.expected, rr.observed = queryStr, s.Query
			return rr
		}
	}
	if clean && (!o.Final.QueryOK || o.Final.Query != queryStr) {
		rr.fail = fmt.Sprintf("run %d: after a clean exit the .query file does not hold the query text", ri)
		rr.expected, rr.observed = queryStr, o.Final.Query
		return rr
	}

	if !r.Append {
		// ---- non-append: absent / the content the path had before / this run's complete final result
		sawFinal := false
		for i, s := range all {
			where := fmt.Sprintf("sample %d (t=%d ms)", i, s.AtMs)
			if i == len(all)-1 {
				where = "state after the process ended"
			}
			switch {
			case !s.OutOK:
				if start.OutOK {
					rr.fail = fmt.Sprintf("run %d, %s: the outfile disappeared (it held an earlier result before the run)", ri, where)
					return rr
				}
				if sawFinal {
					rr.fail = fmt.Sprintf("run %d, %s: the outfile disappeared after the final result had been visible", ri, where)
					return rr
				}
			case start.OutOK && s.Out == start.Out && !sawFinal:
				// still the earlier content (which may coincide with the final result)
			default:
				if msg := completeResult(s.Out, q, exp); msg != "" {
					rr.fail = fmt.Sprintf("run %d, %s: the outfile holds neither the earlier content nor the complete final result: %s", ri, where, msg)
					rr.expected = map[string]interface{}{"query": queryStr, "header": h, "groups": len(exp), "earlier": clip(start.Out)}
					rr.observed = clip(s.Out)
					return rr
				}
				sawFinal = true
				if !s.QueryOK || s.Query != queryStr {
					rr.fail = fmt.Sprintf("run %d, %s: the outfile holds this run's result but the .query file does not hold its query text", ri, where)
					rr.expected, rr.observed = queryStr, s.Query
					return rr
				}
			}
		}
		if clean {
			if msg := "outfile absent"; !o.Final.OutOK || func() bool { msg = completeResult(o.Final.Out, q, exp); return msg != "" }() {
				rr.fail = fmt.Sprintf("run %d: dmap exited with status 0 but the outfile does not hold the complete final result: %s", ri, msg)
				rr.expected = map[string]interface{}{"query": queryStr, "header": h, "groups": len(exp)}
				rr.observed = clip(o.Final.Out)
				return rr
			}
		}
		if sawFinal && !clean {
			rr.classes = append(rr.classes, "killed-after-final-rename")
		}
		return rr
	}

	// ---- append: earlier bytes never altered (every sample extends the previous one), header once at offset 0
	prev := ""
	if start.OutOK {
		prev = start.Out
	}
	for i, s := range all {
		where := fmt.Sprintf("sample %d (t=%d ms)", i, s.AtMs)
		if i == len(all)-1 {
			where = "state after the process ended"
		}
		cur := ""
		if s.OutOK {
			cur = s.Out
		} else if start.OutOK {
			rr.fail = fmt.Sprintf("run %d, %s: the outfile disappeared in append mode", ri, where)
			return rr
		}
		if !strings.HasPrefix(cur, prev) {
			rr.fail = fmt.Sprintf("run %d, %s: append mode altered earlier content (the previous state is not a prefix of the file)", ri, where)
			rr.expected, rr.observed = clip(prev), clip(cur)
			return rr
		}
		prev = cur
	}
	final := prev
	added := final
	if start.OutOK {
		added = final[len(start.Out):]
	}
	startEmpty := !start.OutOK || start.Out == ""
	if startEmpty {
		// header first (possibly torn by the kill)
		if !strings.HasPrefix(added, h) && !(o.Killed && strings.HasPrefix(h, added)) {
			rr.fail = fmt.Sprintf("run %d: append to an empty/absent outfile does not begin with the header", ri)
			rr.expected, rr.observed = h, clip(added)
			return rr
		}
		if strings.HasPrefix(added, h) {
			added = added[len(h):]
		} else {
			added = ""
		}
	}
	if strings.Contains("\n"+added, "\n"+h) && !rowCouldBeHeader(q) {
		rr.fail = fmt.Sprintf("run %d: the header was written again in append mode", ri)
		rr.expected, rr.observed = "header only when the file is absent or empty", clip(final)
		return rr
	}
	if clean {
		// The statement for append mode is about the header and about earlier rows; it does not say that the file ends
		// with the final result (the periodic reporter may append part of one more block before the process exits, seen
		// on the unchanged tree). So rows are only checked for their shape, an unterminated tail is tolerated, and the
		// final block is looked for near the end without insisting on it.
		n := len(exp)
		if q.HasLimit && q.Limit < n {
			n = q.Limit
		}
		terminated := added
		if k := strings.LastIndexByte(terminated, '\n'); k >= 0 {
			terminated = terminated[:k+1]
		} else {
			terminated = ""
		}
		addedRows, _ := splitRows(terminated)
		for i, row := range addedRows {
			if len(row) != len(q.Select) {
				rr.fail = fmt.Sprintf("run %d: append mode: appended row %d has %d columns, want %d", ri, i+1, len(row), len(q.Select))
				rr.observed = clip(final)
				return rr
			}
		}
		located := n == 0
		for k := 0; k <= 40 && !located && len(addedRows)-n-k >= 0; k++ {
			if model.CheckResult(q, exp, addedRows[len(addedRows)-n-k:len(addedRows)-k]) == "" {
				located = true
				if k > 0 {
					rr.classes = append(rr.classes, "append:rows-after-the-final-block")
				}
			}
		}
		if located {
			rr.classes = append(rr.classes, "append:final-block-located")
		} else {
			rr.classes = append(rr.classes, "append:final-block-not-located")
		}
	}
	return rr
}

// a header line consisting of one plain field could equal a data row in theory (a group value named like the field)
func rowCouldBeHeader(q gen.Q) bool { return false }

func queryString(c Case, r Run, out string) string {
	q := c.Queries[r.Query]
	q.HasOutfile, q.Outfile, q.OutQuoted, q.Append = true, out, false, r.Append
	return gen.Canonical(q)
}

func evalCase(c Case) lib.Outcome {
	var o lib.Outcome
	id := atomic.AddInt64(&caseN, 1)
	dir := filepath.Join(root, fmt.Sprintf("h%d-%d", os.Getpid(), id))
	os.MkdirAll(dir, 0o755)
	defer os.RemoveAll(dir)
	out := filepath.Join(dir, "result.csv")
	if c.PreExisting != "" {
		os.WriteFile(out, []byte(c.PreExisting), 0o644)
	}
	tb := c.Data.table()
	var lines []string
	for _, r := range tb.Rows {
		lines = append(lines, tb.Line(r))
	}
	earlier := map[string]bool{}
	var history []interface{}
	for ri, r := range c.Runs {
		start := readState(out)
		qs := queryString(c, r, out)
		ob := runOnce(dir, out, qs, lines[:r.Upto], r, ri)
		rr := checkRun(c, ri, start, qs, ob, earlier)
		earlier[qs] = true
		history = append(history, map[string]interface{}{"run": ri, "query": qs, "kill": r.Kill, "exit": ob.Exit, "killed": ob.Killed, "wall_ms": ob.WallMs, "trace": ob.Trace, "samples": len(ob.Samples)})
		for _, cl := range rr.classes {
			o.Classes = append(o.Classes, cl)
		}
		if rr.inconc != "" {
			o.Inconclusive = rr.inconc
			return o
		}
		if rr.fail != "" {
			o.Fail, o.Expected, o.Observed, o.Trace = rr.fail, rr.expected, rr.observed, history
			return o
		}
		if rr.midWrite && len(tb.Rows) > 0 {
			o.NonTrivial = true
		}
	}
	if len(c.Runs) >= 2 {
		o.NonTrivial = true
		o.Classes = append(o.Classes, "history>=2")
	}
	o.Classes = dedupe(o.Classes)
	return o
}

func dedupe(l []string) []string {
	seen := map[string]bool{}
	var out []string
	for _, s := range l {
		if !seen[s] {
			seen[s] = true
			out = append(out, s)
		}
	}
	return out
}

func sampleOf(c Case) interface{} {
	var runs []interface{}
	for _, r := range c.Runs {
		runs = append(runs, map[string]interface{}{"append": r.Append, "query": gen.Canonical(c.Queries[r.Query]), "lines": r.Upto, "delays_ms": r.Delays, "kill": r.Kill, "slow_row_us": r.SlowRowUs})
	}
	return map[string]interface{}{"groups": c.Data.NGroups, "lines": c.Data.NLines, "preexisting_outfile": c.PreExisting != "", "runs": runs}
}

const ruleText = "history of 1-3 runs of the real dmap binary against one outfile path (append / non-append, 1-2 different queries, pre-existing foreign result or none); input of 4..6000 lines over 1..1500 groups fed through a pipe in 2-5 paced chunks so that interim results are written; each run ends cleanly, by SIGKILL at a generated instant, or by SIGKILL at the k-th hit of an outfile/queryfile write step (verif hook). Oracle over every sample of the path (sampled every ~0.2 ms) and the post-mortem state: non-append = absent | the content before the run | the complete final result per the reference evaluator (header, exactly the expected rows), never back; .query = an earlier or this run's query text, and this run's whenever the result is visible; append = every state extends the previous one, header only at offset 0 of an empty file, every terminated appended row has the right number of columns (where the final block sits is recorded, not demanded: the statement for append mode is about the header and earlier rows only). Non-trivial = a kill that landed inside a report (between its first and last write step) or a history of >= 2 runs"

func TestC15History(t *testing.T) {
	lib.Run(t, lib.Spec[Case]{Prop: "C15", Check: "history", Rule: ruleText, Gen: genCase, Eval: evalCase, SampleOf: sampleOf})
}

// ---- kill-point enumeration --------------------------------------------------------

func genScenario(t *rapid.T) Case {
	var c Case
	c.Data.NGroups = rapid.SampledFrom([]int{2, 5, 12, 30}).Draw(t, "ngroups")
	c.Data.NLines = c.Data.NGroups * 3
	c.Data.Seed = rapid.IntRange(0, 50).Draw(t, "seed")
	tb := c.Data.table()
	q := genQuery(t, tb)
	// group by k so that the result has NGroups rows (unless the where clause removes some)
	q.GroupBy = []gen.Field{{Name: "k"}}
	q.HasLimit = false
	c.Queries = []gen.Q{q}
	r := Run{Append: rapid.IntRange(0, 2).Draw(t, "append") == 0, Upto: c.Data.NLines, Chunks: []int{30, 60, 90}, Delays: []int{0, 700, 900, 900}, EndWait: 0}
	c.Runs = []Run{r}
	if rapid.Bool().Draw(t, "preexisting") {
		c.PreExisting = "count($line),k\n7,earlier\n3,result\n"
	}
	return c
}

func TestC15KillPoints(t *testing.T) {
	nScen, rowCap := 3, 24
	if lib.Thorough() {
		nScen, rowCap = 24, 1000
	}
	if os.Getenv("VERIF_REPLAY") != "" {
		nScen = 0
	}
	type job struct {
		c   Case
		out lib.Outcome
	}
	var jobs []*job
	exhaustive := true
	notes := []string{}
	for si := 0; si < nScen; si++ {
		scen := rapid.Custom(genScenario).Example(int(lib.Seed())*100 + si)
		// fault-free calibration run: which points are hit how often
		cal := evalCaseObs(scen)
		if cal.out.Fail != "" || cal.out.Inconclusive != "" {
			jobs = append(jobs, &job{c: scen, out: cal.out})
			continue
		}
		total := 0
		for _, p := range killPoints {
			n := cal.trace[p]
			var ks []int
			if n <= rowCap {
				for k := 1; k <= n; k++ {
					ks = append(ks, k)
				}
			} else {
				exhaustive = false
				seen := map[int]bool{}
				for _, k := range []int{1, 2, 3, n - 2, n - 1, n} {
					seen[k] = true
				}
				for i := 0; len(seen) < rowCap; i++ {
					seen[1+(i*7919+si*13)%n] = true
				}
				for k := range seen {
					ks = append(ks, k)
				}
				sort.Ints(ks)
			}
			for _, k := range ks {
				kc := scen
				kc.Runs = []Run{scen.Runs[0]}
				kc.Runs[0].Kill = Kill{Kind: "hook", Point: p, K: k}
				jobs = append(jobs, &job{c: kc})
				total++
			}
		}
		notes = append(notes, fmt.Sprintf("scenario %d: %s; fault-free run hit %v; %d kill points run", si, gen.Canonical(scen.Queries[0]), cal.trace, total))
	}
	var wg sync.WaitGroup
	sem := make(chan struct{}, 16)
	for _, j := range jobs {
		if j.out.Fail != "" || j.out.Inconclusive != "" {
			continue
		}
		wg.Add(1)
		sem <- struct{}{}
		go func(j *job) {
			defer wg.Done()
			defer func() { <-sem }()
			j.out = lib.SafeEval(evalCase, j.c)
		}(j)
	}
	wg.Wait()
	pre := map[string]lib.Outcome{}
	for _, j := range jobs {
		pre[lib.Canon(j.c)] = j.out
	}
	rec := lib.RunFixed(t, lib.Spec[Case]{Prop: "C15", Check: "killpoints",
		Rule: "for generated single-run scenarios (2..30 result rows, append / non-append, with / without an earlier result at the path): a fault-free run records how often each hooked write step is hit; then one run per (step, k <= hits) kills the process at exactly that hit (all k when <= the cap, else a spread sample); same oracle as the history check. Non-trivial = the kill landed inside a report",
		Eval: func(c Case) lib.Outcome {
			if o, ok := pre[lib.Canon(c)]; ok {
				return o
			}
			return evalCase(c)
		}, SampleOf: sampleOf},
		func(yield func(Case) bool) {
			for _, j := range jobs {
				if !yield(j.c) {
					return
				}
			}
		})
	for _, n := range notes {
		rec.Note(n)
	}
	rec.SetExhaustive(exhaustive && nScen > 0)
}

type calib struct {
	out   lib.Outcome
	trace map[string]int
}

// evalCaseObs runs a single-run scenario fault-free and returns the outcome plus the hook hit counts.
func evalCaseObs(c Case) calib {
	id := atomic.AddInt64(&caseN, 1)
	dir := filepath.Join(root, fmt.Sprintf("cal%d-%d", os.Getpid(), id))
	os.MkdirAll(dir, 0o755)
	defer os.RemoveAll(dir)
	out := filepath.Join(dir, "result.csv")
	if c.PreExisting != "" {
		os.WriteFile(out, []byte(c.PreExisting), 0o644)
	}
	tb := c.Data.table()
	var lines []string
	for _, r := range tb.Rows {
		lines = append(lines, tb.Line(r))
	}
	r := c.Runs[0]
	start := readState(out)
	qs := queryString(c, r, out)
	ob := runOnce(dir, out, qs, lines[:r.Upto], r, 0)
	rr := checkRun(c, 0, start, qs, ob, map[string]bool{})
	var o lib.Outcome
	o.Fail, o.Expected, o.Observed, o.Inconclusive = rr.fail, rr.expected, rr.observed, rr.inconc
	return calib{out: o, trace: ob.Trace}
}
