//go:build tools

package verif

import (
	_ "github.com/mimecast/dtail/internal/mapr"
	_ "golang.org/x/crypto/ssh"
	_ "pgregory.net/rapid"
)
