package c04

import (
	"context"
	"fmt"
	"os"
	"path/filepath"
	"strconv"
	"strings"
	"sync"
	"sync/atomic"
	"testing"
	"time"

	"github.com/mimecast/dtail/internal/io/fs"
	"github.com/mimecast/dtail/internal/io/line"
	"github.com/mimecast/dtail/internal/lcontext"
	"github.com/mimecast/dtail/internal/regex"
	"github.com/mimecast/dtail/verif/lib"
	"pgregory.net/rapid"
)

// A follow that lasts longer than the reader's 3 s housekeeping tick (truncation check), with writers appending
// all the time: nothing the reader does on that tick may disturb delivery.

type LongCase struct {
	Writers   int
	PaceUs    int // pause of each writer between two lines
	Seconds   int
	LineBytes int
}

func genLong(t *rapid.T) LongCase {
	return LongCase{Writers: rapid.IntRange(1, 3).Draw(t, "writers"), PaceUs: rapid.SampledFrom([]int{0, 2, 5, 20, 200}).Draw(t, "pace-us"),
		Seconds: rapid.SampledFrom([]int{4, 7, 7, 10}).Draw(t, "seconds"), LineBytes: rapid.SampledFrom([]int{12, 40, 200}).Draw(t, "line-bytes")}
}

func evalLong(c LongCase) lib.Outcome {
	var o lib.Outcome
	id := atomic.AddInt64(&caseN, 1)
	path := filepath.Join(root, fmt.Sprintf("long-%d-%d.log", os.Getpid(), id))
	pre := "m-pre-existing\n"
	if err := os.WriteFile(path, []byte(pre), 0o644); err != nil {
		return lib.Outcome{Inconclusive: err.Error()}
	}
	defer os.Remove(path)
	lines := make(chan *line.Line, 1<<20)
	serverMessages := make(chan string, 1000)
	ctx, cancel := context.WithCancel(context.Background())
	defer cancel()
	startErr := make(chan error, 1)
	go func() {
		startErr <- fs.NewTailFile(path, "long", serverMessages).Start(ctx, lcontext.LContext{}, lines, regex.NewNoop())
	}()
	// consumer: checks on the fly
	nextSeq := make([]int, c.Writers)
	var bad string
	var delivered int64
	consumerDone := make(chan struct{})
	go func() {
		defer close(consumerDone)
		for {
			select {
			case l := <-lines:
				s := l.Content.String()
				perc := l.TransmittedPerc
				atomic.AddInt64(&delivered, 1)
				if bad != "" {
					continue
				}
				// "w<writer>-<seq>-padding\n"
				parts := strings.SplitN(strings.TrimSuffix(s, "\n"), "-", 3)
				w, err1 := strconv.Atoi(strings.TrimPrefix(parts[0], "w"))
				seq := -1
				var err2 error = fmt.Errorf("short")
				if len(parts) >= 2 {
					seq, err2 = strconv.Atoi(parts[1])
				}
				switch {
				case !strings.HasSuffix(s, "\n") || !strings.HasPrefix(s, "w") || err1 != nil || err2 != nil || w < 0 || w >= c.Writers || s != longLine(w, seq, c.LineBytes):
					bad = fmt.Sprintf("a delivered line is not a line any writer appended (modified or glued): %q", clipB([]byte(s)))
				case seq != nextSeq[w]:
					bad = fmt.Sprintf("writer %d: line %d delivered where line %d was due (lost, duplicated or out of order)", w, seq, nextSeq[w])
				case perc != 100:
					bad = fmt.Sprintf("writer %d line %d reports a transmission percentage of %d with an ample queue", w, seq, perc)
				default:
					nextSeq[w]++
				}
			case <-ctx.Done():
				return
			}
		}
	}()
	deadline := time.Now().Add(10 * time.Second)
	for posOf(path) != int64(len(pre)) {
		if time.Now().After(deadline) {
			return lib.Outcome{Inconclusive: "tail reader did not position within 10 s"}
		}
		time.Sleep(200 * time.Microsecond)
	}
	// writers
	written := make([]int, c.Writers)
	var wwg sync.WaitGroup
	stopAt := time.Now().Add(time.Duration(c.Seconds) * time.Second)
	for w := 0; w < c.Writers; w++ {
		wwg.Add(1)
		go func(w int) {
			defer wwg.Done()
			fd, err := os.OpenFile(path, os.O_WRONLY|os.O_APPEND, 0o644)
			if err != nil {
				return
			}
			defer fd.Close()
			for seq := 0; time.Now().Before(stopAt) && seq < 3000000; seq++ {
				if _, err := fd.WriteString(longLine(w, seq, c.LineBytes)); err != nil {
					return
				}
				written[w] = seq + 1
				if c.PaceUs > 0 {
					for t0 := time.Now(); time.Since(t0) < time.Duration(c.PaceUs)*time.Microsecond; {
					}
				}
			}
		}(w)
	}
	wwg.Wait()
	total := 0
	for _, n := range written {
		total += n
	}
	// let the reader catch up
	end := time.Now().Add(30 * time.Second)
	for atomic.LoadInt64(&delivered) < int64(total) && time.Now().Before(end) && bad == "" {
		time.Sleep(5 * time.Millisecond)
	}
	time.Sleep(150 * time.Millisecond)
	cancel()
	<-consumerDone
	select {
	case <-startErr:
	case <-time.After(5 * time.Second):
	}
	o.Classes = []string{fmt.Sprintf("writers=%d", c.Writers), fmt.Sprintf("seconds=%d", c.Seconds)}
	o.NonTrivial = c.Seconds >= 4 && total > 1000
	if bad != "" {
		o.Fail = bad
		o.Observed = map[string]interface{}{"lines_written": written, "delivered": delivered}
		return o
	}
	for w, n := range written {
		if nextSeq[w] != n {
			o.Fail = fmt.Sprintf("writer %d appended %d lines, %d were delivered within 30 s", w, n, nextSeq[w])
			return o
		}
	}
	return o
}

func longLine(w, seq, n int) string {
	s := fmt.Sprintf("w%d-%d-", w, seq)
	if len(s) < n {
		s += strings.Repeat("p", n-len(s))
	}
	return s + "\n"
}

func TestC04LongFollow(t *testing.T) {
	lib.Run(t, lib.Spec[LongCase]{Prop: "C04", Check: "long-follow",
		Rule: "one file followed for 4..10 s (so the reader's 3 s truncation check fires 1..3 times) while 1..3 writers append O_APPEND lines of 12..200 bytes as fast as they can or paced at 2..200 us; ample queue, consumer checking on the fly; oracle: every delivered line is a line some writer wrote, per writer the sequence numbers are 0,1,2,... without gap or repeat, percentage 100, and everything written arrives. Non-trivial = follow >= 4 s with > 1000 lines",
		Gen: genLong, Eval: evalLong})
}
