// Package c04 checks property C04: while a file is followed, every complete line appended after the follow
// began is delivered exactly once, unmodified and in order, however the writer splits its writes; content
// already in the file is not delivered; lines are dropped only when the consumer cannot keep up, and then the
// next delivered line reports a transmission percentage below 100.
//
// The server's tail reader (fs.NewTailFile(...).Start, the code a tail command runs per file) is driven
// in-process: the harness owns the file, the write schedule, the delivery queue and the consumer.
package c04

import (
	"bytes"
	"context"
	"fmt"
	"os"
	"path/filepath"
	"strings"
	"sync"
	"sync/atomic"
	"testing"
	"time"

	"github.com/mimecast/dtail/internal/io/fs"
	"github.com/mimecast/dtail/internal/io/line"
	"github.com/mimecast/dtail/internal/lcontext"
	"github.com/mimecast/dtail/internal/regex"
	"github.com/mimecast/dtail/verif/lib"
	"pgregory.net/rapid"
)

var (
	root  string
	caseN int64
)

func TestMain(m *testing.M) {
	lib.Main(m, func() {
		lib.InitDtailServer()
		cwd, _ := os.Getwd()
		root, _ = os.MkdirTemp(cwd, "c04-")
		root, _ = filepath.EvalSymlinks(root)
	})
}

// ---- case --------------------------------------------------------------------------------

// Seg describes a run of appended lines.
type Seg struct {
	N     int    // number of lines
	Kind  string // ascii | multibyte | long | empty | bytes
	Match bool   // lines carry the tag the filter selects
}

// Pause makes the consumer sleep Ms once it has taken AfterN lines.
type Pause struct {
	AfterN int
	Ms     int
}

type Tail struct {
	PreLines int   // lines already in the file (>= 1, newline-terminated)
	Segs     []Seg // appended lines
	// Cuts are positions (per mille of the appended byte stream) where one write() ends and the next begins;
	// CutInRune adds cuts inside multi-byte characters.
	Cuts      []int
	CutInRune int   // how many additional cuts are placed inside a multi-byte character (as far as there are any)
	Delays    []int // ms before write i (cyclic)
	Filter    bool  // follow with the regex "^m" (only lines whose Seg.Match is set are selected)
	Queue     int   // capacity of the delivery queue
	Pauses    []Pause
	HoldLast  bool // the last line is first written without its newline, held, and completed later
	// HoldLong: the partial last line is held for 3.3 s instead of 0.26 s, i.e. across one of the reader's 3 s
	// housekeeping ticks
	HoldLong bool
}

type Case struct {
	Tails []Tail
}

var delayChoices = []int{0, 0, 0, 30, 120, 250}

func genTail(t *rapid.T) Tail {
	var tl Tail
	tl.PreLines = rapid.IntRange(1, 5).Draw(t, "pre")
	tl.Filter = rapid.IntRange(0, 2).Draw(t, "filter") == 0
	tiny := rapid.IntRange(0, 2).Draw(t, "tiny") == 0
	tl.Queue = 10000
	if tiny {
		tl.Queue = rapid.IntRange(1, 3).Draw(t, "queue")
	}
	nseg := rapid.IntRange(1, 5).Draw(t, "nseg")
	for i := 0; i < nseg; i++ {
		s := Seg{Kind: rapid.SampledFrom([]string{"ascii", "ascii", "multibyte", "long", "empty", "bytes", "buf4k", "huge"}).Draw(t, "kind"), Match: true}
		s.N = rapid.SampledFrom([]int{1, 1, 2, 5, 20, 60}).Draw(t, "n")
		if (s.Kind == "huge" || s.Kind == "buf4k") && s.N > 5 {
			s.N = 5
		}
		if tl.Filter {
			s.Match = rapid.Bool().Draw(t, "match")
			if !s.Match && tiny && rapid.Bool().Draw(t, "longgap") {
				// a long run of unselected lines (longer than the 100-line statistics window)
				s.N = rapid.SampledFrom([]int{100, 130, 250}).Draw(t, "gap")
				s.Kind = "ascii"
			}
		}
		if tiny && s.Kind == "empty" {
			// with a tiny queue delivered lines are aligned with the appended ones by content: identical lines would make
			// the position of a gap ambiguous
			s.Kind = "ascii"
		}
		if tiny && s.Match && rapid.IntRange(0, 2).Draw(t, "burst") == 0 {
			s.N = rapid.SampledFrom([]int{60, 120, 250}).Draw(t, "burstn")
			if s.Kind == "long" || s.Kind == "huge" || s.Kind == "buf4k" {
				s.Kind = "ascii"
			}
		}
		tl.Segs = append(tl.Segs, s)
	}
	ncut := rapid.IntRange(0, 8).Draw(t, "ncuts")
	for i := 0; i < ncut; i++ {
		tl.Cuts = append(tl.Cuts, rapid.IntRange(1, 999).Draw(t, "cut"))
	}
	tl.CutInRune = rapid.IntRange(0, 3).Draw(t, "cut-in-rune")
	nd := rapid.IntRange(1, 4).Draw(t, "ndelays")
	for i := 0; i < nd; i++ {
		tl.Delays = append(tl.Delays, rapid.SampledFrom(delayChoices).Draw(t, "delay"))
	}
	if tiny {
		np := rapid.IntRange(1, 3).Draw(t, "npauses")
		for i := 0; i < np; i++ {
			tl.Pauses = append(tl.Pauses, Pause{AfterN: rapid.SampledFrom([]int{0, 1, 3, 50, 101, 130}).Draw(t, "after"), Ms: rapid.SampledFrom([]int{30, 150, 400}).Draw(t, "pause-ms")})
		}
	}
	tl.HoldLast = rapid.IntRange(0, 2).Draw(t, "hold") == 0
	if rapid.Bool().Draw(t, "hl1") && rapid.Bool().Draw(t, "hl2") && rapid.Bool().Draw(t, "hl3") && rapid.Bool().Draw(t, "hl4") {
		tl.HoldLast, tl.HoldLong = true, true
	}
	return tl
}

func genCase(t *rapid.T) Case {
	n := 8
	var c Case
	for i := 0; i < n; i++ {
		c.Tails = append(c.Tails, genTail(t))
	}
	return c
}

// content of appended line number i (0-based, over all segments) of a segment
func lineContent(kind string, match, filter bool, i int) []byte {
	tag := "u"
	if match {
		tag = "m"
	}
	head := fmt.Sprintf("%s%d-", tag, i)
	switch kind {
	case "empty":
		if match && filter {
			return []byte("m")
		}
		return []byte("")
	case "multibyte":
		return []byte(head + strings.Repeat("€ö日本", 1+i%4) + "é")
	case "long":
		return []byte(head + strings.Repeat("0123456789abcdef", 60+i%70))
	case "buf4k":
		// around the size of a buffered reader's buffer (4096 including or excluding the terminator)
		n := 4093 + i%6
		return []byte(head + strings.Repeat("z", n-len(head)))
	case "huge":
		return []byte(head + strings.Repeat("0123456789abcdef", []int{300, 1024, 4096, 2500}[i%4]))
	case "bytes":
		b := []byte(head)
		for k := 0; k < 20+i%13; k++ {
			c := byte((i*31 + k*17) % 256)
			if c == '\n' {
				c = 'n'
			}
			b = append(b, c)
		}
		return b
	}
	return []byte(head + "some log text " + strings.Repeat("x", i%40))
}

// ---- run one tail ------------------------------------------------------------------------------

type delivered struct {
	Content []byte
	Perc    int
	Count   uint64
}

// posOf returns the read offset of the descriptor this process holds on path (-1 if none).
func posOf(path string) int64 {
	ents, err := os.ReadDir("/proc/self/fd")
	if err != nil {
		return -1
	}
	for _, e := range ents {
		if p, err := os.Readlink("/proc/self/fd/" + e.Name()); err == nil && p == path {
			b, err := os.ReadFile("/proc/self/fdinfo/" + e.Name())
			if err != nil {
				continue
			}
			for _, l := range strings.Split(string(b), "\n") {
				if strings.HasPrefix(l, "pos:") {
					var pos int64
					fmt.Sscan(strings.TrimSpace(strings.TrimPrefix(l, "pos:")), &pos)
					return pos
				}
			}
		}
	}
	return -1
}

type tailResult struct {
	fail       string
	expected   interface{}
	observed   interface{}
	classes    []string
	nontrivial bool
	inconc     string
}

func runTail(tl Tail, path string) (res tailResult) {
	// ---- the file and what will be appended
	var pre bytes.Buffer
	for i := 0; i < tl.PreLines; i++ {
		fmt.Fprintf(&pre, "m-pre-existing line %d\n", i)
	}
	if err := os.WriteFile(path, pre.Bytes(), 0o644); err != nil {
		res.inconc = err.Error()
		return
	}
	defer os.Remove(path)
	var all [][]byte  // every appended line, without terminator
	var sel []bool    // selected by the filter
	var stream []byte // appended byte stream
	var runeCuts []int
	idx := 0
	for _, s := range tl.Segs {
		for k := 0; k < s.N; k++ {
			c := lineContent(s.Kind, s.Match, tl.Filter, idx)
			all = append(all, c)
			sel = append(sel, !tl.Filter || s.Match)
			if s.Kind == "multibyte" {
				// a cut candidate inside the first multi-byte character of the line
				if p := bytes.IndexByte(c, 0xe2); p >= 0 {
					runeCuts = append(runeCuts, len(stream)+p+1+idx%2)
				}
			}
			stream = append(stream, c...)
			stream = append(stream, '\n')
			idx++
		}
	}
	if len(all) == 0 {
		return
	}
	held := 0 // bytes of the stream held back until the end (the newline of the last line)
	if tl.HoldLast {
		held = 1
	}
	// write boundaries
	cutSet := map[int]bool{}
	for _, pm := range tl.Cuts {
		if p := len(stream) * pm / 1000; p > 0 && p < len(stream)-held {
			cutSet[p] = true
		}
	}
	inRune := 0
	for i := 0; i < len(runeCuts) && inRune < tl.CutInRune; i += 1 + len(runeCuts)/4 {
		if p := runeCuts[i]; p > 0 && p < len(stream)-held {
			cutSet[p] = true
			inRune++
		}
	}
	var cuts []int
	for p := 0; p < len(stream); p++ {
		if cutSet[p] {
			cuts = append(cuts, p)
		}
	}
	cuts = append(cuts, len(stream)-held)
	insideLine := 0
	for _, p := range cuts[:len(cuts)-1] {
		if p > 0 && stream[p-1] != '\n' {
			insideLine++
		}
	}

	// ---- start following
	re := regex.NewNoop()
	if tl.Filter {
		var err error
		if re, err = regex.New("^m", regex.Default); err != nil {
			res.inconc = err.Error()
			return
		}
	}
	lines := make(chan *line.Line, tl.Queue)
	serverMessages := make(chan string, 1000)
	ctx, cancel := context.WithCancel(context.Background())
	defer cancel()
	startErr := make(chan error, 1)
	go func() {
		startErr <- fs.NewTailFile(path, filepath.Base(path), serverMessages).Start(ctx, lcontext.LContext{}, lines, re)
	}()
	// consumer
	var mu sync.Mutex
	var got []delivered
	consumerDone := make(chan struct{})
	var idle int32 // 1 while the consumer waits for a line (all its pauses for the current position are over)
	go func() {
		defer close(consumerDone)
		n := 0
		for {
			for _, p := range tl.Pauses {
				if p.AfterN == n {
					select {
					case <-time.After(time.Duration(p.Ms) * time.Millisecond):
					case <-ctx.Done():
					}
				}
			}
			atomic.StoreInt32(&idle, 1)
			select {
			case l := <-lines:
				atomic.StoreInt32(&idle, 0)
				mu.Lock()
				got = append(got, delivered{Content: append([]byte(nil), l.Content.Bytes()...), Perc: l.TransmittedPerc, Count: l.Count})
				mu.Unlock()
				n++
			case <-ctx.Done():
				return
			}
		}
	}()
	nGot := func() int { mu.Lock(); defer mu.Unlock(); return len(got) }
	// wait until the reader has opened the file and sits at its end
	deadline := time.Now().Add(10 * time.Second)
	for posOf(path) != int64(pre.Len()) {
		select {
		case err := <-startErr:
			res.fail = fmt.Sprintf("the tail reader returned before anything was appended: %v", err)
			return
		default:
		}
		if time.Now().After(deadline) {
			res.inconc = "tail reader did not open and position the file within 10 s"
			return
		}
		time.Sleep(200 * time.Microsecond)
	}
	// ---- append according to the write schedule
	f, err := os.OpenFile(path, os.O_WRONLY|os.O_APPEND, 0o644)
	if err != nil {
		res.inconc = err.Error()
		return
	}
	defer f.Close()
	prev := 0
	slow := false
	for i, p := range cuts {
		if d := tl.Delays[i%len(tl.Delays)]; d > 0 {
			time.Sleep(time.Duration(d) * time.Millisecond)
			if d >= 100 {
				slow = true
			}
		}
		if p > prev {
			if _, err := f.Write(stream[prev:p]); err != nil {
				res.inconc = err.Error()
				return
			}
			prev = p
		}
	}
	nsel := 0
	for _, s := range sel {
		if s {
			nsel++
		}
	}
	ample := tl.Queue >= 10000
	waitFor := func(n int, max time.Duration) {
		end := time.Now().Add(max)
		for nGot() < n && time.Now().Before(end) {
			time.Sleep(2 * time.Millisecond)
		}
	}
	if tl.HoldLast {
		// everything but the last line's terminator is written: the partial line must be held back
		expectNow := nsel
		if sel[len(sel)-1] {
			expectNow--
		}
		if ample {
			waitFor(expectNow, 5*time.Second)
		}
		if tl.HoldLong {
			time.Sleep(3300 * time.Millisecond) // across a housekeeping tick of the reader
			res.classes = append(res.classes, "partial-line-held-across-the-3s-tick")
		} else {
			time.Sleep(260 * time.Millisecond) // more than two polls of the reader
		}
		if ample && nGot() > expectNow {
			mu.Lock()
			last := got[len(got)-1]
			mu.Unlock()
			res.fail = "a line was delivered before it was completed (the writer had not written its newline yet)"
			res.observed = fmt.Sprintf("%q", last.Content)
			return
		}
		if _, err := f.Write([]byte("\n")); err != nil {
			res.inconc = err.Error()
			return
		}
		res.classes = append(res.classes, "partial-line-held")
	}
	if ample {
		waitFor(nsel, 5*time.Second)
		time.Sleep(130 * time.Millisecond) // anything extra (duplicates) would show up with the next poll
	} else {
		// the consumer may be pausing: wait until nothing new arrives for a while
		since := time.Now()
		for time.Since(since) < 300*time.Millisecond {
			// the consumer must really be waiting for a line (not sitting in one of its pauses) and the queue be empty
			if atomic.LoadInt32(&idle) != 1 || len(lines) != 0 {
				since = time.Now()
			}
			time.Sleep(2 * time.Millisecond)
		}
		// the consumer is idle and the queue empty now: a line appended at this point can be kept up with and must arrive
		sentinel := []byte("m-sentinel: the consumer is idle, this line cannot be dropped")
		all, sel = append(all, sentinel), append(sel, true)
		before := nGot()
		if _, err := f.Write(append(append([]byte(nil), sentinel...), '\n')); err != nil {
			res.inconc = err.Error()
			return
		}
		waitFor(before+1, 10*time.Second)
		if nGot() == before {
			cancel()
			res.fail = "a line appended while the consumer was idle and the delivery queue empty was not delivered within 10 s (dropped although the client could keep up)"
			res.classes = append(res.classes, "queue=tiny")
			return
		}
		time.Sleep(20 * time.Millisecond)
	}
	cancel()
	<-consumerDone
	select {
	case <-startErr:
	case <-time.After(5 * time.Second):
		res.fail = "the tail reader did not return within 5 s after its context was cancelled"
		return
	}

	// ---- oracle
	var want [][]byte
	for i, c := range all {
		if sel[i] {
			want = append(want, append(append([]byte(nil), c...), '\n'))
		}
	}
	res.classes = append(res.classes, fmt.Sprintf("queue=%s", map[bool]string{true: "ample", false: "tiny"}[ample]))
	if tl.Filter {
		res.classes = append(res.classes, "filter")
	}
	if insideLine > 0 {
		res.classes = append(res.classes, "write-boundary-inside-line")
	}
	if inRune > 0 {
		res.classes = append(res.classes, "write-boundary-inside-character")
	}
	if slow {
		res.classes = append(res.classes, "delay>=poll-interval")
	}
	res.nontrivial = insideLine > 0 || slow
	for _, g := range got {
		if bytes.HasPrefix(g.Content, []byte("m-pre-existing")) {
			res.fail = "content that was in the file before the follow began was delivered"
			res.observed = fmt.Sprintf("%q", g.Content)
			return
		}
	}
	if ample {
		for i := 0; i < len(want) && i < len(got); i++ {
			if !bytes.Equal(want[i], got[i].Content) {
				res.fail = fmt.Sprintf("delivered line %d differs from appended line %d (modified, duplicated, lost or out of order)", i+1, i+1)
				res.expected, res.observed = fmt.Sprintf("%q", clipB(want[i])), fmt.Sprintf("%q", clipB(got[i].Content))
				return
			}
			if got[i].Perc != 100 {
				res.fail = fmt.Sprintf("delivered line %d reports a transmission percentage of %d although nothing was dropped", i+1, got[i].Perc)
				return
			}
		}
		if len(got) != len(want) {
			res.fail = fmt.Sprintf("%d lines delivered, %d complete lines were appended and selected", len(got), len(want))
			if len(got) > len(want) {
				res.observed = fmt.Sprintf("first extra: %q", clipB(got[len(want)].Content))
			} else {
				res.expected = fmt.Sprintf("first missing: %q", clipB(want[len(got)]))
			}
			return
		}
		return
	}
	// tiny queue: a subsequence, and every gap is announced by a percentage below 100 on the next delivered line
	wi := 0
	drops := 0
	for gi, g := range got {
		gap := false
		for wi < len(want) && !bytes.Equal(want[wi], g.Content) {
			wi++
			gap = true
			drops++
		}
		if wi == len(want) {
			res.fail = fmt.Sprintf("delivered line %d is not an appended line in order (modified, duplicated or out of order)", gi+1)
			res.observed = fmt.Sprintf("%q", clipB(g.Content))
			return
		}
		wi++
		if gap && g.Perc >= 100 {
			res.fail = fmt.Sprintf("lines were dropped before delivered line %d (%q) but it reports a transmission percentage of %d", gi+1, clipB(g.Content), g.Perc)
			res.expected = "< 100"
			return
		}
		if g.Perc > 100 || g.Perc < 0 {
			res.fail = fmt.Sprintf("delivered line %d reports a transmission percentage of %d", gi+1, g.Perc)
			return
		}
	}
	if drops > 0 {
		res.classes = append(res.classes, "lines-dropped")
		res.nontrivial = true
	}
	return
}

func clipB(b []byte) []byte {
	if len(b) > 120 {
		return append(append([]byte(nil), b[:100]...), []byte("...")...)
	}
	return b
}

func evalCase(c Case) lib.Outcome {
	var o lib.Outcome
	id := atomic.AddInt64(&caseN, 1)
	res := make([]tailResult, len(c.Tails))
	var wg sync.WaitGroup
	for i := range c.Tails {
		wg.Add(1)
		go func(i int) {
			defer wg.Done()
			res[i] = runTail(c.Tails[i], filepath.Join(root, fmt.Sprintf("follow-%d-%d-%d.log", os.Getpid(), id, i)))
		}(i)
	}
	wg.Wait()
	seen := map[string]bool{}
	for i, r := range res {
		for _, cl := range r.classes {
			if !seen[cl] {
				seen[cl] = true
				o.Classes = append(o.Classes, cl)
			}
		}
		if r.nontrivial {
			o.NonTrivial = true
		}
		if r.inconc != "" && o.Inconclusive == "" {
			o.Inconclusive = fmt.Sprintf("tail %d: %s", i, r.inconc)
		}
		if r.fail != "" && o.Fail == "" {
			o.Fail = fmt.Sprintf("tail %d: %s", i, r.fail)
			o.Expected, o.Observed = r.expected, r.observed
		}
	}
	if o.Fail != "" {
		o.Inconclusive = ""
	}
	return o
}

const ruleText = "8 independent follows per case run concurrently; each: 1-5 pre-existing lines, 1-5 segments of 1..250 appended lines (ASCII, multi-byte, 1-2 KiB, around 4096 bytes, 5-64 KiB, empty, arbitrary bytes), the appended byte stream cut into write() calls at 0-8 generated positions plus up to 3 positions inside a multi-byte character, 0/30/120/250 ms before each write (the reader polls every 100 ms), optional filter regex, ample (10000) or tiny (1-3) delivery queue with consumer pauses, last line optionally written without its newline, held > 2 polls (sometimes 3.3 s, across the reader's 3 s housekeeping tick) and completed later. Oracle: ample queue: delivered == the complete selected appended lines, byte for byte, once, in order, percentage 100, nothing pre-existing, the partial line only after completion; tiny queue: delivered is an in-order subsequence and the first line after every gap reports < 100. Non-trivial = a write boundary inside a line, a delay >= the poll interval, or lines actually dropped"

func TestC04Follow(t *testing.T) {
	lib.Run(t, lib.Spec[Case]{Prop: "C04", Check: "follow", Rule: ruleText, Gen: genCase, Eval: evalCase})
}
