package c04

import (
	"bytes"
	"context"
	"fmt"
	"os"
	"path/filepath"
	"strconv"
	"strings"
	"sync"
	"sync/atomic"
	"testing"
	"time"

	"github.com/mimecast/dtail/internal/io/fs"
	"github.com/mimecast/dtail/internal/io/line"
	"github.com/mimecast/dtail/internal/lcontext"
	"github.com/mimecast/dtail/internal/regex"
	"github.com/mimecast/dtail/verif/lib"
	"pgregory.net/rapid"
)

// Several followed files of one session share one delivery queue (in the server: the session's lines channel).

type Round struct {
	Counts  []int // lines appended to file i in this round (one write() per file, all files at once)
	DelayMs int   // pause after the round
}

type SharedCase struct {
	Files      int
	Queue      int
	Rounds     []Round
	PerLineUs  int     // the consumer's time per line
	Pauses     []Pause // consumer pauses (after it has taken AfterN lines)
	Filter     bool
	Unselected int // every Unselected-th line does not match the filter (0 = all match)
	// BigLineKB > 0: every line is that long and the filter has to scan all of it, so that a reader spends
	// milliseconds between looking at the queue and putting its line there
	BigLineKB int
}

func genShared(t *rapid.T) SharedCase {
	var c SharedCase
	c.Files = rapid.IntRange(2, 4).Draw(t, "files")
	c.Queue = rapid.SampledFrom([]int{1, 2, 3, 5, 100}).Draw(t, "queue")
	nr := rapid.IntRange(1, 6).Draw(t, "rounds")
	for i := 0; i < nr; i++ {
		var r Round
		for f := 0; f < c.Files; f++ {
			r.Counts = append(r.Counts, rapid.SampledFrom([]int{0, 1, 1, 3, 10, 40, 120}).Draw(t, "count"))
		}
		r.DelayMs = rapid.SampledFrom([]int{0, 0, 50, 150}).Draw(t, "delay")
		c.Rounds = append(c.Rounds, r)
	}
	if rapid.IntRange(0, 2).Draw(t, "race-shape") == 0 {
		// many rounds in which every file gets one or two lines at the same instant while the consumer keeps the small
		// queue hovering around full: the readers compete for the last free slot again and again
		c.Queue = rapid.SampledFrom([]int{1, 2, 3}).Draw(t, "race-queue")
		c.Rounds = nil
		nr := rapid.IntRange(30, 80).Draw(t, "race-rounds")
		d := rapid.SampledFrom([]int{0, 2, 5, 20}).Draw(t, "race-delay")
		for i := 0; i < nr; i++ {
			var r Round
			for f := 0; f < c.Files; f++ {
				r.Counts = append(r.Counts, 1+(i+f)%2)
			}
			r.DelayMs = d
			c.Rounds = append(c.Rounds, r)
		}
	}
	c.PerLineUs = rapid.SampledFrom([]int{0, 0, 200, 2000, 20000}).Draw(t, "per-line-us")
	if rapid.IntRange(0, 3).Draw(t, "big-lines") == 0 {
		c.BigLineKB = rapid.SampledFrom([]int{100, 400, 900}).Draw(t, "big-kb")
		c.Queue = rapid.SampledFrom([]int{1, 1, 2}).Draw(t, "big-queue")
		c.Filter, c.Unselected = true, 0
		c.Rounds = nil
		nr := rapid.IntRange(4, 10).Draw(t, "big-rounds")
		for i := 0; i < nr; i++ {
			var r Round
			for f := 0; f < c.Files; f++ {
				r.Counts = append(r.Counts, 1)
			}
			r.DelayMs = 250
			c.Rounds = append(c.Rounds, r)
		}
		c.PerLineUs = 20000
	}
	np := rapid.IntRange(0, 2).Draw(t, "npauses")
	for i := 0; i < np; i++ {
		c.Pauses = append(c.Pauses, Pause{AfterN: rapid.SampledFrom([]int{0, 1, 5, 50, 101}).Draw(t, "after"), Ms: rapid.SampledFrom([]int{30, 150, 400}).Draw(t, "ms")})
	}
	c.Filter = rapid.Bool().Draw(t, "filter")
	if c.Filter {
		c.Unselected = rapid.SampledFrom([]int{0, 2, 3, 7}).Draw(t, "unselected")
	}
	return c
}

var sharedPad string // set per case: padding that makes every line BigLineKB long

func sharedLine(f, n int, match bool) string {
	tag := "m"
	if !match {
		tag = "u"
	}
	return fmt.Sprintf("%s%d-%d-shared queue payload %s%s end", tag, f, n, strings.Repeat("y", (n*7+f)%30), sharedPad)
}

func evalShared(c SharedCase) lib.Outcome {
	var o lib.Outcome
	id := atomic.AddInt64(&caseN, 1)
	paths := make([]string, c.Files)
	for f := range paths {
		paths[f] = filepath.Join(root, fmt.Sprintf("shared-%d-%d-f%d.log", os.Getpid(), id, f))
		if err := os.WriteFile(paths[f], []byte("m-pre-existing\n"), 0o644); err != nil {
			return lib.Outcome{Inconclusive: err.Error()}
		}
		defer os.Remove(paths[f])
	}
	re := regex.NewNoop()
	sharedPad = ""
	if c.BigLineKB > 0 {
		sharedPad = strings.Repeat("a", c.BigLineKB*1024)
	}
	if c.Filter {
		re, _ = regex.New("^m", regex.Default)
		if c.BigLineKB > 0 {
			re, _ = regex.New("^m.*end$", regex.Default) // has to look at the whole line
		}
	}
	lines := make(chan *line.Line, c.Queue)
	serverMessages := make(chan string, 1000)
	ctx, cancel := context.WithCancel(context.Background())
	defer cancel()
	var rwg sync.WaitGroup
	for f := range paths {
		rwg.Add(1)
		go func(f int) {
			defer rwg.Done()
			fs.NewTailFile(paths[f], fmt.Sprintf("src%d", f), serverMessages).Start(ctx, lcontext.LContext{}, lines, re)
		}(f)
	}
	type got struct {
		n    int
		perc int
	}
	var mu sync.Mutex
	perFile := make([][]got, c.Files)
	var bad string
	total := 0
	consumerDone := make(chan struct{})
	var idle int32 // 1 while the consumer waits for a line (all its pauses for the current position are over)
	go func() {
		defer close(consumerDone)
		taken := 0
		for {
			for _, p := range c.Pauses {
				if p.AfterN == taken {
					select {
					case <-time.After(time.Duration(p.Ms) * time.Millisecond):
					case <-ctx.Done():
					}
				}
			}
			atomic.StoreInt32(&idle, 1)
			select {
			case l := <-lines:
				atomic.StoreInt32(&idle, 0)
				content := l.Content.String()
				src := l.SourceID
				perc := l.TransmittedPerc
				taken++
				mu.Lock()
				total++
				// which file and which line?
				f, err1 := strconv.Atoi(strings.TrimPrefix(src, "src"))
				parts := strings.SplitN(content, "-", 3)
				if err1 != nil || f < 0 || f >= c.Files || len(parts) < 3 || !strings.HasPrefix(parts[0], "m") {
					if bad == "" {
						bad = fmt.Sprintf("a delivered line cannot be attributed (source id %q, content %q)", src, clipB([]byte(content)))
					}
					mu.Unlock()
					continue
				}
				n, _ := strconv.Atoi(parts[1])
				ff, _ := strconv.Atoi(parts[0][1:])
				if ff != f || content != sharedLine(f, n, true)+"\n" {
					if bad == "" {
						bad = fmt.Sprintf("a line delivered under source id %q is not a complete line of that file: %q", src, clipB([]byte(content)))
					}
					mu.Unlock()
					continue
				}
				perFile[f] = append(perFile[f], got{n, perc})
				mu.Unlock()
				if c.PerLineUs > 0 {
					time.Sleep(time.Duration(c.PerLineUs) * time.Microsecond)
				}
			case <-ctx.Done():
				return
			}
		}
	}()
	// wait until every reader sits at the end of its file
	deadline := time.Now().Add(10 * time.Second)
	for f := range paths {
		for posOf(paths[f]) != int64(len("m-pre-existing\n")) {
			if time.Now().After(deadline) {
				return lib.Outcome{Inconclusive: "tail readers did not position within 10 s"}
			}
			time.Sleep(200 * time.Microsecond)
		}
	}
	// appended lines
	next := make([]int, c.Files)
	selectedOf := make([][]int, c.Files)
	fds := make([]*os.File, c.Files)
	for f := range paths {
		fd, err := os.OpenFile(paths[f], os.O_WRONLY|os.O_APPEND, 0o644)
		if err != nil {
			return lib.Outcome{Inconclusive: err.Error()}
		}
		defer fd.Close()
		fds[f] = fd
	}
	appendLines := func(f, count int) []byte {
		var b bytes.Buffer
		for k := 0; k < count; k++ {
			next[f]++
			match := !(c.Unselected > 0 && next[f]%c.Unselected == 0)
			b.WriteString(sharedLine(f, next[f], match))
			b.WriteByte('\n')
			if match {
				selectedOf[f] = append(selectedOf[f], next[f])
			}
		}
		return b.Bytes()
	}
	for _, r := range c.Rounds {
		var wwg sync.WaitGroup
		for f := 0; f < c.Files; f++ {
			data := appendLines(f, r.Counts[f])
			if len(data) == 0 {
				continue
			}
			wwg.Add(1)
			go func(f int, data []byte) { defer wwg.Done(); fds[f].Write(data) }(f, data)
		}
		wwg.Wait()
		time.Sleep(time.Duration(r.DelayMs) * time.Millisecond)
	}
	// quiescence, then one sentinel line per file while the consumer is idle: these cannot be dropped
	// (the consumer must really be waiting for a line, not sitting in one of its pauses, and the queue must be empty)
	since := time.Now()
	for time.Since(since) < 300*time.Millisecond {
		if atomic.LoadInt32(&idle) != 1 || len(lines) != 0 {
			since = time.Now()
		}
		time.Sleep(2 * time.Millisecond)
	}
	sentinels := make([]int, c.Files)
	for f := 0; f < c.Files; f++ {
		data := appendLines(f, 1)
		if len(selectedOf[f]) > 0 && selectedOf[f][len(selectedOf[f])-1] == next[f] {
			sentinels[f] = next[f]
		} else {
			// the sentinel fell on an unselected position: add one more that is selected
			data = append(data, appendLines(f, 1)...)
			sentinels[f] = next[f]
			if c.Unselected > 0 && next[f]%c.Unselected == 0 {
				sentinels[f] = 0
			}
		}
		fds[f].Write(data)
		// one file after the other, each waits for its delivery: the queue is empty whenever a sentinel is read
		end := time.Now().Add(10 * time.Second)
		for time.Now().Before(end) && sentinels[f] != 0 {
			mu.Lock()
			l := perFile[f]
			ok := len(l) > 0 && l[len(l)-1].n == sentinels[f]
			mu.Unlock()
			if ok {
				break
			}
			time.Sleep(2 * time.Millisecond)
		}
	}
	time.Sleep(30 * time.Millisecond)
	cancel()
	<-consumerDone
	doneCh := make(chan struct{})
	go func() { rwg.Wait(); close(doneCh) }()
	select {
	case <-doneCh:
	case <-time.After(5 * time.Second):
		o.Fail = "the tail readers did not return within 5 s after their context was cancelled"
		return o
	}
	// ---- oracle
	o.Classes = []string{fmt.Sprintf("files=%d", c.Files), fmt.Sprintf("queue=%d", c.Queue)}
	if c.BigLineKB > 0 {
		o.Classes = append(o.Classes, "long-lines-with-scanning-filter")
	}
	if c.Filter {
		o.Classes = append(o.Classes, "filter")
	}
	if bad != "" {
		o.Fail = bad
		return o
	}
	drops := 0
	for f := 0; f < c.Files; f++ {
		want := selectedOf[f]
		wi := 0
		for gi, g := range perFile[f] {
			gap := false
			for wi < len(want) && want[wi] != g.n {
				wi++
				gap = true
				drops++
			}
			if wi == len(want) {
				o.Fail = fmt.Sprintf("file %d: delivered line %d (number %d) is a duplicate, out of order or was never appended", f, gi+1, g.n)
				return o
			}
			wi++
			if gap && g.perc >= 100 {
				o.Fail = fmt.Sprintf("file %d: lines were dropped before line %d but it reports a transmission percentage of %d", f, g.n, g.perc)
				o.Expected = "< 100"
				o.Observed = map[string]interface{}{"delivered_so_far": gi, "queue": c.Queue}
				return o
			}
			if g.perc > 100 || g.perc < 0 {
				o.Fail = fmt.Sprintf("file %d: line %d reports a transmission percentage of %d", f, g.n, g.perc)
				return o
			}
		}
		if sentinels[f] != 0 {
			l := perFile[f]
			if len(l) == 0 || l[len(l)-1].n != sentinels[f] {
				o.Fail = fmt.Sprintf("file %d: a line appended while the consumer was idle and the shared queue empty was not delivered within 10 s", f)
				return o
			}
		}
	}
	if drops > 0 {
		o.Classes = append(o.Classes, "lines-dropped")
	}
	o.NonTrivial = drops > 0
	return o
}

func TestC04SharedQueue(t *testing.T) {
	lib.Run(t, lib.Spec[SharedCase]{Prop: "C04", Check: "shared-queue",
		Rule: "2..4 files followed by separate tail readers sharing one delivery queue of capacity 1/2/3/5/100 (in the server: all follows of a session share the session's queue); 1..6 rounds in which every file gets 0..120 lines in one write, all files at the same moment; consumer taking 0..20 ms per line with pauses; optional filter with every 2nd/3rd/7th line unselected; finally one line per file while the consumer is idle. Oracle per file (attributed through the source id): delivered lines are complete lines of that file, an in-order subsequence of its selected lines, the first line after every gap reports < 100, the final line arrives. Non-trivial = lines were dropped",
		Gen: genShared, Eval: evalShared})
}
