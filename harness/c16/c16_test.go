package c16

import (
	"bytes"
	"fmt"
	"regexp"
	"strings"
	"testing"

	"github.com/mimecast/dtail/internal/clients/handlers"
	"github.com/mimecast/dtail/internal/color/brush"
	"github.com/mimecast/dtail/internal/config"
	"github.com/mimecast/dtail/internal/mapr"
	maprclient "github.com/mimecast/dtail/internal/mapr/client"
	"github.com/mimecast/dtail/verif/lib"
	"pgregory.net/rapid"
)

func TestMain(m *testing.M) { lib.Main(m, lib.InitDtailClientStdout) }

var ansi = regexp.MustCompile("\x1b\\[[0-9;]*m")

func strip(b []byte) []byte { return ansi.ReplaceAll(b, nil) }

// ---- message generator -----------------------------------------------------------

var prefixes = []string{"REMOTE", "SERVER", "CLIENT", "AGGREGATE", "", "REMOTEX", "remote", "CLIENTS", "SERVER ", ".syn close connection", ".x", "."}

func fieldGen() *rapid.Generator[[]byte] {
	return rapid.OneOf(
		rapid.SliceOfN(rapid.Byte(), 0, 24),
		rapid.Map(rapid.SampledFrom([]string{"", "host1", "100", "99", "1", "42", "file.log", "WARN", "ERROR", "FATAL", "WARNING: x", "ERRORS", "INFO", "\x1b[31mred\x1b[39m", "\x1b[", "€", "¬", "a\nb", "\n", "tail\n", "x|y", "≔", "∥", "k≔v∥", "0∥1∥count(x)≔3∥", "OK", "\r", "\x00"}),
			func(s string) []byte { return []byte(s) }),
		rapid.Map(rapid.StringMatching(`[a-zA-Z0-9 .:=/_-]{0,40}`), func(s string) []byte { return []byte(s) }),
	)
}

type msgCase struct {
	Prefix string
	Fields [][]byte
	NL     bool
}

func (m msgCase) bytes() []byte {
	var b bytes.Buffer
	b.WriteString(m.Prefix)
	for _, f := range m.Fields {
		b.WriteByte('|')
		b.Write(f)
	}
	if m.NL {
		b.WriteByte('\n')
	}
	return b.Bytes()
}

func genMsg(t *rapid.T) msgCase {
	return msgCase{
		Prefix: rapid.SampledFrom(prefixes).Draw(t, "prefix"),
		Fields: rapid.SliceOfN(fieldGen(), 0, 9).Draw(t, "fields"),
		NL:     rapid.Bool().Draw(t, "nl"),
	}
}

func msgClasses(m msgCase) (nontrivial bool, classes []string) {
	b := m.bytes()
	nfields := 1 + len(m.Fields)
	need := 0
	switch m.Prefix {
	case "REMOTE", "REMOTEX":
		need = 6
	case "SERVER", "CLIENT", "CLIENTS", "SERVER ":
		need = 3
	}
	short := need > 0 && bytes.Count(b, []byte("|"))+1 < need
	hi := false
	for _, c := range b {
		if c >= 0x80 {
			hi = true
		}
	}
	classes = append(classes, "prefix="+strings.TrimSpace(m.Prefix), fmt.Sprintf("fields=%d", nfields))
	if short {
		classes = append(classes, "fewer-fields-than-painted")
	}
	if len(b) == 0 {
		classes = append(classes, "empty")
	}
	if hi {
		classes = append(classes, "byte>=0x80")
	}
	if bytes.Contains(b, []byte("\x1b")) {
		classes = append(classes, "contains-ESC")
	}
	return short || len(b) == 0 || hi, classes
}

// ---- (a) Colorfy ----------------------------------------------------------------------

func evalColorfy(m msgCase) lib.Outcome {
	var o lib.Outcome
	o.NonTrivial, o.Classes = msgClasses(m)
	in := m.bytes()
	var out string
	var pan interface{}
	func() {
		defer func() { pan = recover() }()
		out = brush.Colorfy(string(in))
	}()
	if pan != nil {
		o.Fail = fmt.Sprintf("Colorfy(%q) panicked: %v", in, pan)
		return o
	}
	if !bytes.Equal(strip([]byte(out)), strip(in)) {
		o.Fail = fmt.Sprintf("colouring altered the text of %q", in)
		o.Expected, o.Observed = string(strip(in)), string(strip([]byte(out)))
	}
	return o
}

func TestC16Colorfy(t *testing.T) {
	lib.Run(t, lib.Spec[msgCase]{
		Prop: "C16", Check: "colorfy",
		Rule: "message = prefix in {REMOTE,SERVER,CLIENT,AGGREGATE,none,look-alikes,hidden} + 0..9 '|'-separated fields of arbitrary bytes / severity words / ESC sequences / delimiters + optional newline; oracle: no panic and strip-ANSI(Colorfy(m)) == strip-ANSI(m); non-trivial = recognised prefix with fewer fields than the painter indexes, or empty message, or a byte >= 0x80; distinct by message bytes",
		Gen:  genMsg, Eval: evalColorfy,
		Canon:    func(m msgCase) string { return string(m.bytes()) },
		SampleOf: func(m msgCase) interface{} { return fmt.Sprintf("%q", m.bytes()) },
	})
}

// ---- (b) handler streams ------------------------------------------------------------------

type streamCase struct {
	Handler string // client | mapr | health
	Msgs    []msgCase
	Joins   []int // 0: 0xAC, 1: \n, 2: \n+0xAC, 3: nothing
	Cuts    []int // chunk sizes
}

func (s streamCase) bytes() []byte {
	var b bytes.Buffer
	for i, m := range s.Msgs {
		b.Write(m.bytes())
		switch s.Joins[i%len(s.Joins)] {
		case 0:
			b.WriteByte(0xAC)
		case 1:
			b.WriteByte('\n')
		case 2:
			b.WriteString("\n\xAC")
		}
	}
	return b.Bytes()
}

func genStream(t *rapid.T) streamCase {
	return streamCase{
		Handler: rapid.SampledFrom([]string{"client", "mapr", "health"}).Draw(t, "handler"),
		Msgs:    rapid.SliceOfN(rapid.Custom(genMsg), 0, 8).Draw(t, "msgs"),
		Joins:   rapid.SliceOfN(rapid.IntRange(0, 3), 1, 8).Draw(t, "joins"),
		Cuts:    rapid.SliceOfN(rapid.IntRange(1, 40), 1, 6).Draw(t, "cuts"),
	}
}

var testQuery *mapr.Query

func newHandler(kind string) handlers.Handler {
	switch kind {
	case "mapr":
		if testQuery == nil {
			q, err := mapr.NewQuery("select count(x), sum(y), last(z), avg(y), min(y), max(y), len(z) from T group by g")
			if err != nil {
				panic(err)
			}
			testQuery = q
		}
		return handlers.NewMaprHandler("srv", testQuery, mapr.NewGlobalGroupSet())
	case "health":
		return handlers.NewHealthHandler("srv")
	}
	return handlers.NewClientHandler("srv")
}

func feed(kind string, data []byte, cuts []int, colors bool) (out []byte, pan interface{}) {
	config.Client.TermColorsEnable = colors
	out, pan = lib.CaptureStdout(func() {
		h := newHandler(kind)
		defer h.Shutdown()
		i := 0
		for off := 0; off < len(data); i++ {
			n := cuts[i%len(cuts)]
			if off+n > len(data) {
				n = len(data) - off
			}
			h.Write(data[off : off+n])
			off += n
		}
	})
	return
}

func evalStream(s streamCase) lib.Outcome {
	var o lib.Outcome
	data := s.bytes()
	o.Classes = []string{"handler=" + s.Handler}
	for _, m := range s.Msgs {
		nt, cl := msgClasses(m)
		if nt {
			o.NonTrivial = true
		}
		for _, c := range cl {
			if c == "fewer-fields-than-painted" || c == "empty" {
				o.Classes = append(o.Classes, c)
			}
		}
	}
	if bytes.Contains(data, []byte("\xAC\xAC")) || bytes.HasPrefix(data, []byte("\xAC")) {
		o.Classes = append(o.Classes, "empty-message-between-delimiters")
		o.NonTrivial = true
	}
	plain, pan := feed(s.Handler, data, s.Cuts, false)
	if pan != nil {
		o.Fail = fmt.Sprintf("%s handler panicked without colours on stream %q: %v", s.Handler, data, pan)
		return o
	}
	coloured, pan := feed(s.Handler, data, s.Cuts, true)
	if pan != nil {
		o.Fail = fmt.Sprintf("%s handler panicked with colours on stream %q: %v", s.Handler, data, pan)
		return o
	}
	if !bytes.Equal(strip(coloured), strip(plain)) {
		o.Fail = fmt.Sprintf("%s handler: coloured output differs from plain output for stream %q", s.Handler, data)
		o.Expected, o.Observed = fmt.Sprintf("%q", strip(plain)), fmt.Sprintf("%q", strip(coloured))
	}
	return o
}

func TestC16Streams(t *testing.T) {
	lib.Run(t, lib.Spec[streamCase]{
		Prop: "C16", Check: "streams",
		Rule: "0..8 generated messages joined by 0xAC / newline / both / nothing, cut into chunks of 1..40 bytes and written to a fresh client, mapreduce or health handler, once with colours and once without (stdout captured); oracle: no panic and strip-ANSI(coloured) == strip-ANSI(plain); non-trivial as for colorfy or an empty message between delimiters; distinct by (handler, stream bytes, cuts)",
		Gen:  genStream, Eval: evalStream,
		SampleOf: func(s streamCase) interface{} {
			return map[string]interface{}{"handler": s.Handler, "stream": fmt.Sprintf("%q", s.bytes()), "cuts": s.Cuts}
		},
	})
}

// ---- (c) client-side aggregate messages -----------------------------------------------------

type aggCase struct {
	Msg []byte
}

func genAgg(t *rapid.T) aggCase {
	parts := rapid.SliceOfN(rapid.OneOf(
		rapid.SampledFrom([]string{"g1", "1", "0", "-1", "x", "", "count(x)≔3", "sum(y)≔1.5", "sum(y)≔abc", "last(z)≔v", "len(z)≔v", "min(y)≔", "≔", "avg(y)≔NaN", "max(y)≔1e400", "count(x)≔", "99999999999999999999"}),
		rapid.StringMatching(`[a-z()≔0-9.]{0,10}`),
	), 0, 8).Draw(t, "parts")
	return aggCase{Msg: []byte(strings.Join(parts, "∥"))}
}

func evalAgg(c aggCase) lib.Outcome {
	var o lib.Outcome
	n := bytes.Count(c.Msg, []byte("∥")) + 1
	o.NonTrivial = n >= 3
	o.Classes = []string{fmt.Sprintf("parts=%d", n)}
	q, _ := mapr.NewQuery("select count(x), sum(y), last(z), avg(y), min(y), max(y), len(z) from T group by g")
	var pan interface{}
	func() {
		defer func() { pan = recover() }()
		g := mapr.NewGlobalGroupSet()
		a := maprclient.NewAggregate("srv", q, g)
		a.Aggregate(string(c.Msg))
		a.Aggregate(string(c.Msg))
		if _, _, err := g.Result(q, 10); err != nil {
			_ = err
		}
	}()
	if pan != nil {
		o.Fail = fmt.Sprintf("client aggregate panicked on message %q: %v", c.Msg, pan)
	}
	return o
}

func TestC16Aggregate(t *testing.T) {
	lib.Run(t, lib.Spec[aggCase]{
		Prop: "C16", Check: "aggregate",
		Rule: "aggregate message body = 0..8 parts joined by the aggregate delimiter (group keys, sample counts incl. non-numeric/huge, key≔value pairs incl. empty/NaN/overflow); oracle: client-side Aggregate + Result never panic; non-trivial = >=3 parts; distinct by message bytes",
		Gen:  genAgg, Eval: evalAgg,
		Canon:    func(c aggCase) string { return string(c.Msg) },
		SampleOf: func(c aggCase) interface{} { return string(c.Msg) },
	})
}

// ---- native fuzz: byte stream into the three handlers, both colour modes -----------------------

func FuzzC16(f *testing.F) {
	f.Add([]byte("REMOTE|h|100|1|f|text\xAC"), uint8(0))
	f.Add([]byte("REMOTE|x\xACSERVER|x\xACCLIENT\xAC\xAC"), uint8(1))
	f.Add([]byte("AGGREGATE|h|g∥1∥count(x)≔3∥\xAC"), uint8(1))
	f.Add([]byte(".syn close connection\xAC"), uint8(2))
	f.Add([]byte("\xAC"), uint8(1))
	f.Fuzz(func(t *testing.T, data []byte, k uint8) {
		kind := []string{"client", "mapr", "health"}[int(k)%3]
		plain, pan := feed(kind, data, []int{7, 1, 13}, false)
		if pan != nil {
			t.Fatalf("%s handler panicked (plain): %v", kind, pan)
		}
		coloured, pan := feed(kind, data, []int{7, 1, 13}, true)
		if pan != nil {
			t.Fatalf("%s handler panicked (colours): %v", kind, pan)
		}
		if !bytes.Equal(strip(coloured), strip(plain)) {
			t.Fatalf("%s handler: coloured %q != plain %q", kind, strip(coloured), strip(plain))
		}
	})
}
