package c13

import (
	"bytes"
	"encoding/base64"
	"fmt"
	"os"
	"path/filepath"
	"strings"
	"sync"
	"sync/atomic"
	"testing"
	"time"

	"github.com/mimecast/dtail/internal/server/handlers"
	userserver "github.com/mimecast/dtail/internal/user/server"
	"github.com/mimecast/dtail/verif/lib"
	"pgregory.net/rapid"
)

var (
	root     string
	template string
	histN    int64
)

func TestMain(m *testing.M) {
	lib.Main(m, func() {
		lib.InitDtailServer()
		cwd, _ := os.Getwd()
		root, _ = os.MkdirTemp(cwd, "c13-")
		root, _ = filepath.EvalSymlinks(root)
		template = filepath.Join(root, "template.log")
		var b bytes.Buffer
		for i := 0; i < 3000; i++ {
			fmt.Fprintf(&b, "line %d of a file that is larger than every internal queue\n", i)
		}
		os.WriteFile(template, b.Bytes(), 0o644)
	})
}

func envelope(payload string) []byte {
	return []byte("protocol 4.1 base64 " + base64.StdEncoding.EncodeToString([]byte(payload)) + ";")
}

// ---- history --------------------------------------------------------------------------

type step struct {
	Op      string // start-cat | start-tail | drain | cancel | probe | rotate
	Files   int
	Session int
	Glob    bool
}

type history struct {
	L     int // cat limit
	LT    int // tail limit
	Steps []step
}

func genHistory(t *rapid.T) history {
	h := history{L: rapid.SampledFrom([]int{1, 1, 2, 3}).Draw(t, "L"), LT: rapid.SampledFrom([]int{1, 2}).Draw(t, "LT")}
	n := rapid.IntRange(2, 10).Draw(t, "nsteps")
	// now and then: a followed file is rotated away (removed) while other follows queue behind it
	// (rapid's integer draws are heavily biased towards the lower bound, so the rate is made of fair coin flips)
	flips := 5 // 1 in 32
	if lib.Thorough() {
		flips = 2
	}
	rot := true
	for i := 0; i < flips; i++ {
		rot = rapid.Bool().Draw(t, "rotation") && rot
	}
	if rot {
		h.Steps = append(h.Steps, step{Op: "start-tail", Files: h.LT}, step{Op: "start-tail", Files: rapid.IntRange(1, 2).Draw(t, "queued")}, step{Op: "rotate", Session: 0})
		n = rapid.IntRange(2, 5).Draw(t, "nsteps-after")
	}
	for i := 0; i < n; i++ {
		var s step
		if rot {
			// after a rotation: mostly cancel the session that lost its file / start further follows
			switch rapid.IntRange(0, 9).Draw(t, "rot-opk") {
			case 0, 1, 2:
				h.Steps = append(h.Steps, step{Op: "cancel", Session: 0})
				continue
			case 3, 4, 5:
				h.Steps = append(h.Steps, step{Op: "start-tail", Files: 1})
				continue
			case 6:
				h.Steps = append(h.Steps, step{Op: "cancel", Session: rapid.IntRange(0, 20).Draw(t, "which")})
				continue
			}
		}
		switch rapid.IntRange(0, 9).Draw(t, "opk") {
		case 0, 1, 2:
			s = step{Op: "start-cat", Files: rapid.IntRange(1, 3*h.L).Draw(t, "files"), Glob: rapid.IntRange(0, 2).Draw(t, "glob") == 0}
		case 3:
			s = step{Op: "start-tail", Files: rapid.IntRange(1, 2*h.LT).Draw(t, "tfiles")}
			if len(h.Steps) > 0 && h.Steps[len(h.Steps)-1].Op == "cancel" && rapid.Bool().Draw(t, "one") {
				s.Files = 1
			}
		case 4, 5:
			s = step{Op: "drain", Session: rapid.IntRange(0, 20).Draw(t, "which")}
		case 6, 7, 8:
			s = step{Op: "cancel", Session: rapid.IntRange(0, 20).Draw(t, "which")}
		default:
			s = step{Op: "probe"}
		}
		h.Steps = append(h.Steps, s)
	}
	return h
}

type session struct {
	h        handlers.Handler
	kind     string // cat | tail
	files    []string
	draining bool
	ended    bool
	done     chan struct{} // closed when the drainer saw the session end
}

// openUnder lists the case's files currently held open by this process.
func openUnder(dir string) map[string]bool {
	out := map[string]bool{}
	ents, err := os.ReadDir("/proc/self/fd")
	if err != nil {
		return out
	}
	for _, e := range ents {
		// only the log files count: filepath.Glob briefly holds the session directory open
		if p, err := os.Readlink("/proc/self/fd/" + e.Name()); err == nil && strings.HasPrefix(p, dir+"/") && strings.HasSuffix(p, ".log") {
			out[p] = true
		}
	}
	return out
}

func evalHistory(h history) lib.Outcome {
	var o lib.Outcome
	id := atomic.AddInt64(&histN, 1)
	dir := filepath.Join(root, fmt.Sprintf("h%d", id))
	os.MkdirAll(dir, 0o755)
	defer os.RemoveAll(dir)
	catLimiter := make(chan struct{}, h.L)
	tailLimiter := make(chan struct{}, h.LT)
	user, err := userserver.New("tester", "127.0.0.1:9")
	if err != nil {
		return lib.Outcome{Inconclusive: err.Error()}
	}
	var sessions []*session
	var trace []string
	var mu sync.Mutex
	maxCat, maxTail := 0, 0
	o.Classes = []string{fmt.Sprintf("L=%d", h.L)}
	cancelledQueued := false

	defer func() {
		for _, s := range sessions {
			s.h.Shutdown()
		}
		time.Sleep(5 * time.Millisecond)
	}()

	count := func() (cat, tail int) {
		for p := range openUnder(dir) {
			if strings.Contains(filepath.Base(p), "tail") {
				tail++
			} else {
				cat++
			}
		}
		return
	}
	// pending reads of sessions that hold their slots for ever (not draining, not ended)
	blocked := func(kind string) int {
		n := 0
		for _, s := range sessions {
			if s.kind == kind && !s.ended && (!s.draining || kind == "tail") {
				n += len(s.files)
			}
		}
		return n
	}
	drainingLeft := func() bool {
		for _, s := range sessions {
			if s.kind == "cat" && s.draining && !s.ended {
				select {
				case <-s.done:
				default:
					return true
				}
			}
		}
		return false
	}
	rotated := false
	fail := func(format string, a ...interface{}) lib.Outcome {
		o.Fail = fmt.Sprintf(format, a...)
		o.Trace = trace
		return o
	}
	// settle: sample the open files until the expected quiescent state is reached; the limits are checked on every sample
	settle := func(stepNo int, what string) *lib.Outcome {
		deadline := time.Now().Add(8 * time.Second)
		stable := 0
		for {
			c, tl := count()
			mu.Lock()
			if c > maxCat {
				maxCat = c
			}
			if tl > maxTail {
				maxTail = tl
			}
			mu.Unlock()
			if c > h.L {
				r := fail("step %d (%s): %d cat/grep files are open at once, the limit is %d: %v", stepNo, what, c, h.L, keys(openUnder(dir)))
				return &r
			}
			if tl > h.LT {
				r := fail("step %d (%s): %d followed files are open at once, the limit is %d", stepNo, what, tl, h.LT)
				return &r
			}
			nb := blocked("cat")
			wantCat := nb
			if wantCat > h.L {
				wantCat = h.L
			}
			catOK := (c == wantCat && !(nb < h.L && drainingLeft())) || (nb >= h.L && c == h.L)
			wantTail := blocked("tail")
			if wantTail > h.LT {
				wantTail = h.LT
			}
			tailOK := tl == wantTail && len(tailLimiter) == tl
			if rotated {
				// a follow whose file was rotated away keeps retrying: whether it keeps its slot meanwhile is not prescribed,
				// only the limit itself is
				tailOK = len(tailLimiter) <= h.LT
			}
			ok := catOK && tailOK && len(catLimiter) == c
			if ok {
				stable++
				if stable >= 3 {
					return nil
				}
			} else {
				stable = 0
			}
			if time.Now().After(deadline) {
				r := fail("step %d (%s): no quiescent state within 8 s: %d cat files open (want %d; %d blocked reads pending, draining sessions unfinished: %v), %d tail files open (want %d), limiter tokens held cat=%d tail=%d",
					stepNo, what, c, wantCat, nb, drainingLeft(), tl, wantTail, len(catLimiter), len(tailLimiter))
				return &r
			}
			time.Sleep(4 * time.Millisecond)
		}
	}

	startSession := func(kind string, nfiles int, glob bool) *session {
		s := &session{h: handlers.NewServerHandler(user, catLimiter, tailLimiter), kind: kind, done: make(chan struct{})}
		sid := len(sessions)
		sdir := filepath.Join(dir, fmt.Sprintf("s%d", sid))
		os.MkdirAll(sdir, 0o755)
		for f := 0; f < nfiles; f++ {
			p := filepath.Join(sdir, fmt.Sprintf("%s-%d.log", kind, f))
			os.Link(template, p)
			s.files = append(s.files, p)
		}
		if glob {
			s.h.Write(envelope(fmt.Sprintf("%s:plain=true:quiet=true %s regex:noop ", kind, filepath.Join(sdir, "*.log"))))
		} else {
			for _, p := range s.files {
				s.h.Write(envelope(fmt.Sprintf("%s:plain=true:quiet=true %s regex:noop ", kind, p)))
			}
		}
		sessions = append(sessions, s)
		return s
	}
	drain := func(s *session) {
		s.draining = true
		go func() {
			defer close(s.done)
			buf := make([]byte, 64*1024)
			for {
				n, err := s.h.Read(buf)
				if n > 0 && bytes.Contains(buf[:n], []byte(".syn close connection")) {
					s.h.Write(envelope(".ack close connection"))
				}
				if err != nil {
					return
				}
				select {
				case <-s.h.Done():
					return
				default:
				}
			}
		}()
	}
	pick := func(k int, pred func(*session) bool) *session {
		var c []*session
		for _, s := range sessions {
			if pred(s) {
				c = append(c, s)
			}
		}
		if len(c) == 0 {
			return nil
		}
		return c[k%len(c)]
	}

	for i, st := range h.Steps {
		trace = append(trace, fmt.Sprintf("%d:%+v", i, st))
		switch st.Op {
		case "start-cat":
			startSession("cat", st.Files, st.Glob)
		case "start-tail":
			startSession("tail", st.Files, false)
		case "drain":
			if s := pick(st.Session, func(s *session) bool { return s.kind == "cat" && !s.draining && !s.ended }); s != nil {
				drain(s)
			}
		case "cancel":
			if s := pick(st.Session, func(s *session) bool { return !s.ended }); s != nil {
				// does the session have a queued (not yet reading) file while another session reads?
				open := openUnder(dir)
				queued, others := false, false
				for _, f := range s.files {
					if !open[f] {
						queued = true
					}
				}
				for p := range open {
					mine := false
					for _, f := range s.files {
						if f == p {
							mine = true
						}
					}
					if !mine {
						others = true
					}
				}
				if queued && others && !s.draining {
					cancelledQueued = true
				}
				s.h.Shutdown()
				s.ended = true
				if rotated {
					// a follow that lost its file retries every 2 s: give a cancelled one the time to notice the cancellation
					end := time.Now().Add(2300 * time.Millisecond)
					for time.Now().Before(end) {
						if _, tl := count(); tl > h.LT {
							return fail("step %d (cancel after rotation): %d followed files are open at once, the limit is %d", i, tl, h.LT)
						}
						time.Sleep(20 * time.Millisecond)
					}
				}
			}
		case "rotate":
			if s := pick(st.Session, func(s *session) bool { return s.kind == "tail" && !s.ended }); s != nil {
				open := openUnder(dir)
				for _, f := range s.files {
					if open[f] {
						os.Remove(f)
						rotated = true
						o.Classes = append(o.Classes, "followed-file-rotated-away")
						break
					}
				}
				if rotated {
					// the follower checks for truncation / removal every 3 s, then retries every 2 s
					end := time.Now().Add(3500 * time.Millisecond)
					for time.Now().Before(end) {
						if _, tl := count(); tl > h.LT {
							return fail("step %d (rotate): %d followed files are open at once, the limit is %d", i, tl, h.LT)
						}
						time.Sleep(20 * time.Millisecond)
					}
				}
			}
		case "probe":
			// only meaningful when nothing is pending: then exactly L fresh files must be able to open
			if blocked("cat") == 0 && !drainingLeft() {
				ps := startSession("cat", h.L, false)
				if r := settle(i, "probe"); r != nil {
					return *r
				}
				ps.h.Shutdown()
				ps.ended = true
			}
		}
		if r := settle(i, st.Op); r != nil {
			return *r
		}
	}
	// wind down: cancel everything; every slot must come back and a probe must get all L slots
	for _, s := range sessions {
		if !s.ended {
			s.h.Shutdown()
			s.ended = true
		}
	}
	if rotated {
		time.Sleep(2300 * time.Millisecond) // retry interval of a follow that lost its file
	}
	rotated = false // every follow is cancelled now: all slots must be back, exactly
	if r := settle(len(h.Steps), "wind-down"); r != nil {
		return *r
	}
	ps := startSession("cat", h.L, false)
	if r := settle(len(h.Steps)+1, "final-probe"); r != nil {
		return *r
	}
	ps.h.Shutdown()
	ps.ended = true
	pt := startSession("tail", h.LT, false)
	if r := settle(len(h.Steps)+2, "final-probe-tail"); r != nil {
		return *r
	}
	pt.h.Shutdown()
	pt.ended = true
	if r := settle(len(h.Steps)+3, "after-final-probes"); r != nil {
		return *r
	}
	o.NonTrivial = cancelledQueued
	if cancelledQueued {
		o.Classes = append(o.Classes, "cancelled-a-queued-reader-while-another-reads")
	}
	if maxCat == h.L {
		o.Classes = append(o.Classes, "limit-reached")
	}
	return o
}

func keys(m map[string]bool) []string {
	var k []string
	for s := range m {
		k = append(k, filepath.Base(filepath.Dir(s))+"/"+filepath.Base(s))
	}
	return k
}

func TestC13History(t *testing.T) {
	lib.Run(t, lib.Spec[history]{Prop: "C13", Check: "history",
		Rule: "several server sessions (real handlers, in-process) share harness-made limiter channels of capacity L in {1,2,3} (cat) and {1,2} (tail); history of 2..10 steps: start a cat session over 1..3L large files (one command per file or one glob), start a tail session, start draining a session, cancel a session, probe; a read is in progress while its file is open (/proc/self/fd); oracle on every sample: open cat files <= L and followed files <= LT; at quiescence after every step: open files == min(limit, pending blocked reads), draining sessions finish when slots are available, limiter tokens held == open files; finally all slots return and L fresh files all open; non-trivial = a session with a queued (not yet reading) file was cancelled while another session was reading; distinct by history",
		Gen:  genHistory, Eval: evalHistory})
}
