package c08

import (
	"bytes"
	"encoding/base64"
	"fmt"
	"os"
	"path/filepath"
	"strings"
	"testing"
	"time"

	"github.com/mimecast/dtail/internal/config"
	"github.com/mimecast/dtail/internal/server/handlers"
	userserver "github.com/mimecast/dtail/internal/user/server"
	"github.com/mimecast/dtail/verif/lib"
	"github.com/mimecast/dtail/verif/model"
	"pgregory.net/rapid"
)

// One long-lived session (a real server handler, kept open by a follow of an allowed file) asks for the same
// paths before and after links are re-pointed: what a path is allowed to deliver must follow the file it leads
// to at the time of the request, not an earlier answer.

func envelope(payload string) []byte {
	return []byte("protocol 4.1 base64 " + base64.StdEncoding.EncodeToString([]byte(payload)) + ";")
}

func genSessionCase(t *rapid.T) permCase {
	c := genCase(false)(t)
	// direct requests only (no globs, no relative forms), at least one re-pointed link when there is a link
	var reqs []string
	for _, r := range c.Requests {
		if strings.HasPrefix(r, "ROOT/") && !strings.ContainsAny(r, "*?") {
			reqs = append(reqs, r)
		}
	}
	c.Requests = reqs
	if len(c.Relinks) == 0 {
		var links []int
		var targets []string
		for i, e := range c.Entries {
			switch e.Kind {
			case model.KLink:
				links = append(links, i)
			case model.KFile, model.KDir:
				targets = append(targets, e.Path)
			}
		}
		if len(links) > 0 && len(targets) > 0 {
			li := rapid.SampledFrom(links).Draw(t, "session-relink")
			c.Relinks = []relink{{Entry: li, Target: "ROOT/" + rapid.SampledFrom(targets).Draw(t, "session-relink-to")}}
			// ask for the re-pointed link itself and for a file below it
			c.Requests = append(c.Requests, "ROOT/"+c.Entries[li].Path)
		}
	}
	return c
}

func evalSession(c permCase) lib.Outcome {
	var o lib.Outcome
	if len(c.Requests) == 0 {
		return lib.Outcome{Skip: true}
	}
	dir, tree, secrets, err := materialise(c)
	if err != nil {
		return lib.Outcome{Inconclusive: err.Error()}
	}
	defer os.RemoveAll(dir)
	keep := filepath.Join(dir, "keepalive.log")
	os.WriteFile(keep, []byte("keepalive\n"), 0o644)
	perms := config.Permissions{Default: nil, Users: map[string][]string{}}
	for _, r := range c.Default {
		perms.Default = append(perms.Default, c.sub(dir, r))
	}
	// the follow that keeps the session open must be allowed whatever the generated rules say
	keepRule := "^" + keep + "$"
	if c.HasUser {
		var l []string
		for _, r := range c.UserList {
			l = append(l, c.sub(dir, r))
		}
		perms.Users["alice"] = append(l, keepRule)
	} else {
		perms.Default = append(perms.Default, keepRule)
	}
	config.Server.Permissions = perms
	rs := append(rules(c, dir), keepRule)
	u, err := userserver.New("alice", "127.0.0.1:1234")
	if err != nil {
		return lib.Outcome{Inconclusive: err.Error()}
	}
	h := handlers.NewServerHandler(u, make(chan struct{}, 4), make(chan struct{}, 4))
	defer h.Shutdown()
	// reader: everything the session sends
	var out bytes.Buffer
	outCh := make(chan []byte, 1024)
	go func() {
		buf := make([]byte, 32768)
		for {
			n, err := h.Read(buf)
			if n > 0 {
				outCh <- append([]byte(nil), buf[:n]...)
			}
			if err != nil {
				close(outCh)
				return
			}
		}
	}()
	collect := func(d time.Duration) {
		end := time.After(d)
		for {
			select {
			case b, ok := <-outCh:
				if !ok {
					return
				}
				out.Write(b)
			case <-end:
				return
			}
		}
	}
	h.Write(envelope(fmt.Sprintf("tail:plain=true %s regex:noop ", keep)))
	collect(20 * time.Millisecond)

	ask := func(phase string) string {
		for _, r := range c.Requests {
			abs := c.sub(dir, r)
			res, kind, ok := tree.Resolve(abs)
			if !ok {
				continue // a path that leads nowhere costs the server a 5 s retry pause: not requested
			}
			want, rok := model.Allowed(rs, res, kind == model.KFile)
			if !rok {
				continue
			}
			sec := secrets[res]
			mark := out.Len()
			h.Write(envelope(fmt.Sprintf("cat:plain=true %s regex:noop ", abs)))
			// wait for the secret or for the refusal
			deadline := time.Now().Add(3 * time.Second)
			got := false
			for time.Now().Before(deadline) {
				collect(3 * time.Millisecond)
				tail := out.Bytes()[mark:]
				if sec != "" && bytes.Contains(tail, []byte(sec)) {
					got = true
					break
				}
				if bytes.Contains(tail, []byte("SERVER|")) {
					break // the refusal notice (its text is empty with the in-process logger set to 'none')
				}
			}
			if !want {
				collect(30 * time.Millisecond) // a wrongly served file may arrive after the (absent) refusal
				if sec != "" && bytes.Contains(out.Bytes()[mark:], []byte(sec)) {
					got = true
				}
			}
			if os.Getenv("C08_DEBUG") != "" {
				fmt.Printf("DEBUG %s req=%s want=%v got=%v kind=%d took=%v tail=%q\n", phase, strings.TrimPrefix(abs, dir), want, got, kind, time.Since(deadline.Add(-3*time.Second)), string(out.Bytes()[mark:]))
			}
			if got != want {
				return fmt.Sprintf("%s: 'cat %s' in the running session: content delivered=%v, want %v (the path leads to %q now, regular=%v) under rules %q", phase, abs, got, want, res, kind == model.KFile, rs)
			}
		}
		return ""
	}
	o.NonTrivial, o.Classes = classify(c, tree, dir, nil, rs)
	if msg := ask("first request"); msg != "" {
		o.Fail = msg
		return o
	}
	if len(c.Relinks) > 0 {
		for _, rl := range c.Relinks {
			p := filepath.Join(dir, c.Entries[rl.Entry].Path)
			nt := c.sub(dir, rl.Target)
			os.Remove(p)
			if err := os.Symlink(nt, p); err != nil {
				return lib.Outcome{Inconclusive: err.Error()}
			}
			tree.Nodes[p] = model.Node{Kind: model.KLink, Target: nt}
		}
		o.Classes = append(o.Classes, "links-re-pointed-within-the-session")
		o.NonTrivial = true
		if msg := ask("after re-pointing a link"); msg != "" {
			o.Fail = msg
			return o
		}
	}
	return o
}

func TestC08Session(t *testing.T) {
	lib.Run(t, lib.Spec[permCase]{Prop: "C08", Check: "session",
		Rule: "one long-lived session on a real server handler (kept open by a follow of an allowed file): the generated existing paths are requested with cat, then 1-2 links are re-pointed and the same paths are requested again in the same session; oracle: the file's unique secret is delivered exactly when the rules allow the file the path leads to at that moment. Non-trivial = links were re-pointed within the session",
		Gen: genSessionCase, Eval: evalSession})
}
