package c08

import (
	"bytes"
	"fmt"
	"os"
	"path"
	"path/filepath"
	"regexp"
	"sort"
	"strings"
	"sync"
	"syscall"
	"testing"
	"time"

	"github.com/mimecast/dtail/internal/config"
	userserver "github.com/mimecast/dtail/internal/user/server"
	"github.com/mimecast/dtail/verif/lib"
	"github.com/mimecast/dtail/verif/model"
	"pgregory.net/rapid"
)

var root, home string

func TestMain(m *testing.M) {
	lib.Main(m, func() {
		lib.InitDtailServer()
		cwd, _ := os.Getwd()
		root, _ = os.MkdirTemp(cwd, "c08-")
		root, _ = filepath.EvalSymlinks(root)
		home = filepath.Join(root, "home")
		os.MkdirAll(home, 0o755)
	})
}

// ---- layout ------------------------------------------------------------------------

type entry struct {
	Path   string // relative to the case root
	Kind   int    // model.KDir / KFile / KLink / KFifo
	Target string // link text; "ROOT/..." is replaced by the absolute case root
}

type permCase struct {
	Entries  []entry
	Default  []string // rules; "ROOT" is replaced by the absolute case root
	UserList []string // nil = user has no own list
	HasUser  bool
	Requests []string // paths or globs, "ROOT"-relative forms
	E2E      bool
	// Relinks: after the requests were judged once, these links are re-pointed and the same user (the same
	// session object) is asked again: a verdict must follow the file the path leads to now
	Relinks []relink
}

type relink struct {
	Entry  int    // index into Entries (a link)
	Target string // new target, "ROOT"-relative form
}

var fileNames = []string{"f0.log", "f1.log", "secret1", "secret2.txt", "a:b.log", "app-1.log", "x"}
var dirNames = []string{"d0", "d1", "logs", "priv", "d:2"}

func genLayout(t *rapid.T) []entry {
	var es []entry
	nd := rapid.IntRange(2, 4).Draw(t, "ndirs")
	dirs := rapid.SliceOfNDistinct(rapid.SampledFrom(dirNames), nd, nd, func(s string) string { return s }).Draw(t, "dirs")
	for _, d := range dirs {
		es = append(es, entry{Path: d, Kind: model.KDir})
	}
	if rapid.Bool().Draw(t, "nested") {
		es = append(es, entry{Path: dirs[0] + "/sub", Kind: model.KDir})
		dirs = append(dirs, dirs[0]+"/sub")
	}
	var files []string
	seen := map[string]bool{}
	nf := rapid.IntRange(2, 7).Draw(t, "nfiles")
	for i := 0; i < nf; i++ {
		p := rapid.SampledFrom(dirs).Draw(t, "fdir") + "/" + rapid.SampledFrom(fileNames).Draw(t, "fname")
		if !seen[p] {
			seen[p] = true
			files = append(files, p)
			es = append(es, entry{Path: p, Kind: model.KFile})
		}
	}
	// symlinks
	nl := rapid.IntRange(0, 5).Draw(t, "nlinks")
	var links []string
	for i := 0; i < nl; i++ {
		name := fmt.Sprintf("%s/l%d", rapid.SampledFrom(dirs).Draw(t, "ldir"), i)
		var target string
		switch rapid.IntRange(0, 7).Draw(t, "lkind") {
		case 0, 1: // absolute link to a file
			target = "ROOT/" + rapid.SampledFrom(files).Draw(t, "lt")
		case 2: // relative link to a file
			target = relTo(path.Dir(name), rapid.SampledFrom(files).Draw(t, "lt"))
		case 3: // link to a directory
			target = "ROOT/" + rapid.SampledFrom(dirs).Draw(t, "ltd")
		case 4: // link to another link (chain) or to itself (loop)
			if len(links) > 0 {
				target = "ROOT/" + rapid.SampledFrom(links).Draw(t, "ltl")
			} else {
				target = "ROOT/" + name
			}
		case 5:
			target = "/dev/zero"
		case 6:
			target = "ROOT/" + rapid.SampledFrom(dirs).Draw(t, "ltdd") + "/../" + rapid.SampledFrom(files).Draw(t, "ltf")
		default:
			target = "ROOT/nonexistent"
		}
		links = append(links, name)
		es = append(es, entry{Path: name, Kind: model.KLink, Target: target})
	}
	if rapid.IntRange(0, 3).Draw(t, "fifo") == 0 {
		es = append(es, entry{Path: dirs[0] + "/pipe", Kind: model.KFifo})
	}
	return es
}

func relTo(fromDir, to string) string {
	up := strings.Count(fromDir, "/") + 1
	return strings.Repeat("../", up) + to
}

func ruleGen(es []entry) *rapid.Generator[string] {
	return rapid.Custom(func(t *rapid.T) string {
		e := rapid.SampledFrom(es).Draw(t, "re")
		base := path.Base(e.Path)
		dir := path.Dir(e.Path)
		body := rapid.OneOf(
			rapid.Just("^/.*"), rapid.Just("^/.*$"), rapid.Just(`\.log$`), rapid.Just("^ROOT/"),
			rapid.Just("^ROOT/"+regexp.QuoteMeta(dir)+"/"),
			rapid.Just(regexp.QuoteMeta(base)+"$"),
			rapid.Just("^ROOT/"+regexp.QuoteMeta(e.Path)+"$"),
			rapid.Just("secret[[:digit:]]"), rapid.Just("[[:alpha:]]+-[[:digit:]]+\\.log$"), rapid.Just("a:b"), rapid.Just("/d:2/"),
			rapid.Just("/d[0-9]/"), rapid.Just("/(priv|logs)/"), rapid.Just("^/dev/"), rapid.Just("/l[0-9]$"), rapid.Just("f[01]"), rapid.Just("x$"),
		).Draw(t, "body")
		deny := rapid.IntRange(0, 2).Draw(t, "deny") == 0
		prefixed := rapid.Bool().Draw(t, "prefixed")
		r := body
		if deny {
			r = "!" + r
		}
		if prefixed {
			r = "readfiles:" + r
		}
		return r
	})
}

func genCase(e2e bool) func(t *rapid.T) permCase {
	return func(t *rapid.T) permCase {
		var c permCase
		c.E2E = e2e
		c.Entries = genLayout(t)
		c.Default = rapid.SliceOfN(ruleGen(c.Entries), 0, 6).Draw(t, "default")
		c.HasUser = rapid.Bool().Draw(t, "hasuser")
		if c.HasUser {
			c.UserList = rapid.SliceOfN(ruleGen(c.Entries), 0, 6).Draw(t, "userlist")
		}
		var leafs, dirs []string
		for _, e := range c.Entries {
			if e.Kind == model.KDir {
				dirs = append(dirs, e.Path)
			} else {
				leafs = append(leafs, e.Path)
			}
		}
		if !e2e && rapid.Bool().Draw(t, "relink") {
			var links []int
			for i, e := range c.Entries {
				if e.Kind == model.KLink {
					links = append(links, i)
				}
			}
			if len(links) > 0 {
				n := rapid.IntRange(1, 2).Draw(t, "nrelink")
				for k := 0; k < n; k++ {
					li := rapid.SampledFrom(links).Draw(t, "relink-which")
					c.Relinks = append(c.Relinks, relink{Entry: li, Target: "ROOT/" + rapid.SampledFrom(append(append([]string{}, leafs...), dirs...)).Draw(t, "relink-to")})
				}
			}
		}
		nreq := rapid.IntRange(1, 4).Draw(t, "nreq")
		for i := 0; i < nreq; i++ {
			leaf := rapid.SampledFrom(leafs).Draw(t, "leaf")
			switch rapid.IntRange(0, 8).Draw(t, "reqk") {
			case 0, 1, 2:
				c.Requests = append(c.Requests, "ROOT/"+leaf)
			case 3: // with .. segments
				c.Requests = append(c.Requests, "ROOT/"+rapid.SampledFrom(dirs).Draw(t, "viadir")+"/../"+leaf)
			case 4, 8: // through a link to a directory, to a file that really is in that directory (if there is such a pair)
				var cands []string
				for _, e := range c.Entries {
					if e.Kind != model.KLink || !strings.HasPrefix(e.Target, "ROOT/") {
						continue
					}
					td := strings.TrimPrefix(e.Target, "ROOT/")
					for _, f := range c.Entries {
						if f.Kind == model.KFile && path.Dir(f.Path) == td {
							cands = append(cands, "ROOT/"+e.Path+"/"+path.Base(f.Path))
							if e2e {
								cands = append(cands, "ROOT/"+e.Path+"/*")
							}
						}
					}
				}
				if len(cands) > 0 {
					c.Requests = append(c.Requests, rapid.SampledFrom(cands).Draw(t, "via-dirlink"))
				} else {
					// any link with some leaf name below it (mostly a path that does not exist)
					added := false
					for _, e := range c.Entries {
						if e.Kind == model.KLink && !added && rapid.Bool().Draw(t, "vial") {
							c.Requests = append(c.Requests, "ROOT/"+e.Path+"/"+path.Base(leaf))
							added = true
						}
					}
					if !added {
						c.Requests = append(c.Requests, "ROOT/"+leaf)
					}
				}
			case 5: // glob over a directory
				if e2e {
					c.Requests = append(c.Requests, "ROOT/"+path.Dir(leaf)+"/*")
				} else {
					c.Requests = append(c.Requests, "ROOT/"+leaf)
				}
			case 6:
				if e2e {
					c.Requests = append(c.Requests, "ROOT/*/"+rapid.SampledFrom([]string{"*", "f?.log", "l*", "*.log", "s*"}).Draw(t, "globleaf"))
				} else {
					c.Requests = append(c.Requests, "ROOT/./"+leaf)
				}
			default: // relative to the working directory (ROOT/home for the binaries, the test cwd in-process)
				c.Requests = append(c.Requests, "REL/"+leaf)
			}
		}
		return c
	}
}

var caseN int
var caseMu sync.Mutex

func (c permCase) sub(dir, s string) string { return strings.ReplaceAll(s, "ROOT", dir) }

func materialise(c permCase) (dir string, tree *model.Tree, secrets map[string]string, err error) {
	caseMu.Lock()
	caseN++
	id := caseN
	caseMu.Unlock()
	dir = filepath.Join(root, fmt.Sprintf("t%d", id%32))
	os.RemoveAll(dir)
	if err = os.MkdirAll(dir, 0o755); err != nil {
		return
	}
	tree = &model.Tree{Nodes: map[string]model.Node{}, External: map[string]int{"/dev/zero": model.KDev}}
	tree.Nodes[dir] = model.Node{Kind: model.KDir}
	secrets = map[string]string{}
	for i, e := range c.Entries {
		p := filepath.Join(dir, e.Path)
		switch e.Kind {
		case model.KDir:
			err = os.MkdirAll(p, 0o755)
		case model.KFile:
			sec := fmt.Sprintf("SECRET-%d-%d", id, i)
			secrets[p] = sec
			err = os.WriteFile(p, []byte(sec+"\n"), 0o644)
		case model.KLink:
			err = os.Symlink(c.sub(dir, e.Target), p)
		case model.KFifo:
			err = syscall.Mkfifo(p, 0o644)
		}
		if err != nil {
			return
		}
		tree.Nodes[p] = model.Node{Kind: e.Kind, Target: c.sub(dir, e.Target)}
	}
	return
}

func rules(c permCase, dir string) []string {
	src := c.Default
	if c.HasUser {
		src = c.UserList
	}
	var out []string
	for _, r := range src {
		out = append(out, c.sub(dir, r))
	}
	return out
}

func classify(c permCase, tree *model.Tree, dir string, reqs []string, rs []string) (bool, []string) {
	var classes []string
	nt := false
	viaLink := false
	for _, r := range reqs {
		res, _, ok := tree.Resolve(r)
		if ok && res != path.Clean(r) {
			viaLink = true
		}
	}
	allowM, denyM := false, false
	for _, rule := range rs {
		body := strings.TrimPrefix(rule, "readfiles:")
		deny := strings.HasPrefix(body, "!")
		body = strings.TrimPrefix(body, "!")
		re, err := regexp.Compile(body)
		if err != nil {
			continue
		}
		for _, r := range reqs {
			if res, _, ok := tree.Resolve(r); ok && re.MatchString(res) {
				if deny {
					denyM = true
				} else {
					allowM = true
				}
			}
		}
		if strings.Contains(body, ":") {
			classes = append(classes, "rule-with-colon")
		}
	}
	if viaLink {
		classes = append(classes, "via-symlink-or-dotdot")
		nt = true
	}
	if allowM && denyM {
		classes = append(classes, "allow-and-deny-both-match")
		nt = true
	}
	if c.HasUser {
		classes = append(classes, "per-user-list")
	}
	return nt, classes
}

// ---- (a) in-process verdicts ---------------------------------------------------------------------------

func evalInproc(c permCase) lib.Outcome {
	var o lib.Outcome
	dir, tree, _, err := materialise(c)
	if err != nil {
		return lib.Outcome{Inconclusive: err.Error()}
	}
	defer os.RemoveAll(dir)
	cwd, _ := os.Getwd()
	cwdReal, _ := filepath.EvalSymlinks(cwd)
	perms := config.Permissions{Default: nil, Users: map[string][]string{}}
	for _, r := range c.Default {
		perms.Default = append(perms.Default, c.sub(dir, r))
	}
	if c.HasUser {
		var l []string
		for _, r := range c.UserList {
			l = append(l, c.sub(dir, r))
		}
		perms.Users["alice"] = l
	}
	config.Server.Permissions = perms
	rs := rules(c, dir)
	var reqs []string
	for _, r := range c.Requests {
		if strings.HasPrefix(r, "REL/") {
			// relative to cwd: build a relative path from the real cwd to the case dir
			rel, err := filepath.Rel(cwdReal, dir)
			if err != nil {
				continue
			}
			reqs = append(reqs, rel+"/"+strings.TrimPrefix(r, "REL/"))
		} else {
			reqs = append(reqs, c.sub(dir, r))
		}
	}
	var absReqs []string
	for _, r := range reqs {
		if !strings.HasPrefix(r, "/") {
			absReqs = append(absReqs, cwdReal+"/"+r)
		} else {
			absReqs = append(absReqs, r)
		}
	}
	o.NonTrivial, o.Classes = classify(c, tree, dir, absReqs, rs)
	u, err := userserver.New("alice", "127.0.0.1:1234")
	for i, r := range reqs {
		res, kind, ok := tree.Resolve(absReqs[i])
		want := false
		if ok && len(rs) > 0 {
			w, rok := model.Allowed(rs, res, kind == model.KFile)
			if !rok {
				return lib.Outcome{Skip: true}
			}
			want = w
		}
		got := false
		if err == nil {
			got = u.HasFilePermission(r, "readfiles")
		}
		if got != want {
			o.Fail = fmt.Sprintf("HasFilePermission(%q) = %v, want %v (resolves to %q, regular=%v, exists=%v) under rules %q", r, got, want, res, kind == model.KFile, ok, rs)
			o.KnownKey = ""
			return o
		}
	}
	if len(c.Relinks) == 0 {
		return o
	}
	// re-point links and ask the same user object again
	for _, rl := range c.Relinks {
		p := filepath.Join(dir, c.Entries[rl.Entry].Path)
		nt := c.sub(dir, rl.Target)
		os.Remove(p)
		if err := os.Symlink(nt, p); err != nil {
			return lib.Outcome{Inconclusive: err.Error()}
		}
		tree.Nodes[p] = model.Node{Kind: model.KLink, Target: nt}
	}
	o.Classes = append(o.Classes, "links-re-pointed-between-requests")
	for i, r := range reqs {
		res, kind, ok := tree.Resolve(absReqs[i])
		want := false
		if ok && len(rs) > 0 {
			w, rok := model.Allowed(rs, res, kind == model.KFile)
			if !rok {
				return lib.Outcome{Skip: true}
			}
			want = w
		}
		got := false
		if err == nil {
			got = u.HasFilePermission(r, "readfiles")
		}
		if got != want {
			o.Fail = fmt.Sprintf("after re-pointing %d link(s): HasFilePermission(%q) = %v for the same user, want %v (now resolves to %q, regular=%v, exists=%v) under rules %q", len(c.Relinks), r, got, want, res, kind == model.KFile, ok, rs)
			return o
		}
	}
	return o
}

func TestC08Verdict(t *testing.T) {
	lib.Run(t, lib.Spec[permCase]{Prop: "C08", Check: "verdict",
		Rule: "scratch tree (2-5 dirs, files, symlinks to files/dirs/symlinks/loops//dev/zero/dangling, FIFO) x 0..6 rules (allow / !deny, 'readfiles:' or bare, POSIX classes and literal ':' inside, per-user or default) x 1..4 requested paths (direct, with .., through directory links, relative), optionally asked a second time on the same user object after 1-2 links were re-pointed; oracle: HasFilePermission == last-match-wins over the path resolved by an independent tree model, regular files only; non-trivial = allow and deny rule both match a request, or a request reaches its target through a symlink/..; distinct by full case",
		Gen:  genCase(false), Eval: evalInproc})
}

// ---- (b) end to end: secrets served -----------------------------------------------------------------------

// expand a glob over the model tree (components with * and ? only).
func expand(tree *model.Tree, pattern string) []string {
	pattern = path.Clean(pattern)
	comps := strings.Split(strings.TrimPrefix(pattern, "/"), "/")
	cur := []string{""}
	for _, comp := range comps {
		var next []string
		for _, base := range cur {
			if !strings.ContainsAny(comp, "*?[") {
				next = append(next, base+"/"+comp)
				continue
			}
			// list children of base (resolved through symlinks)
			res, kind, ok := tree.Resolve(base + "/")
			if base == "" {
				res, kind, ok = "/", model.KDir, true
			}
			if !ok || kind != model.KDir {
				continue
			}
			var names []string
			for p := range tree.Nodes {
				if path.Dir(p) == res {
					names = append(names, path.Base(p))
				}
			}
			sort.Strings(names)
			for _, n := range names {
				if m, _ := path.Match(comp, n); m {
					next = append(next, base+"/"+n)
				}
			}
		}
		cur = next
	}
	// keep only existing paths (Glob lstat's literal tails)
	var out []string
	for _, p := range cur {
		if _, _, ok := tree.Resolve(p); ok {
			out = append(out, p)
		} else if n, ok2 := tree.Nodes[p]; ok2 && n.Kind == model.KLink {
			out = append(out, p) // dangling or looping link: glob still lists it
		}
	}
	return out
}

func evalE2E(c permCase) lib.Outcome {
	var o lib.Outcome
	dir, tree, secrets, err := materialise(c)
	if err != nil {
		return lib.Outcome{Inconclusive: err.Error()}
	}
	defer os.RemoveAll(dir)
	// keep a writer on every FIFO so that a wrongly allowed open cannot block forever unnoticed
	for _, e := range c.Entries {
		if e.Kind == model.KFifo {
			if f, err := os.OpenFile(filepath.Join(dir, e.Path), os.O_RDWR|syscall.O_NONBLOCK, 0); err == nil {
				defer f.Close()
			}
		}
	}
	cfg := lib.ServerCfg{Permissions: &lib.Permissions{Default: []string{}, Users: map[string][]string{}}}
	for _, r := range c.Default {
		cfg.Permissions.Default = append(cfg.Permissions.Default, c.sub(dir, r))
	}
	if c.HasUser {
		l := []string{}
		for _, r := range c.UserList {
			l = append(l, c.sub(dir, r))
		}
		cfg.Permissions.Users["alice"] = l
	}
	cfgPath := filepath.Join(dir, "dtail.json")
	lib.WriteCfg(cfgPath, cfg)
	rs := rules(c, dir)
	workdir := filepath.Join(dir, "wd")
	os.MkdirAll(workdir, 0o755)
	tree.Nodes[workdir] = model.Node{Kind: model.KDir}

	var reqs, absReqs []string
	for _, r := range c.Requests {
		if strings.HasPrefix(r, "REL/") {
			reqs = append(reqs, "../"+strings.TrimPrefix(r, "REL/"))
			absReqs = append(absReqs, workdir+"/../"+strings.TrimPrefix(r, "REL/"))
		} else {
			reqs = append(reqs, c.sub(dir, r))
			absReqs = append(absReqs, c.sub(dir, r))
		}
	}
	// expected set of secrets
	wantSecrets := map[string]bool{}
	var allPaths []string
	for _, ar := range absReqs {
		for _, p := range expand(tree, ar) {
			allPaths = append(allPaths, p)
			res, kind, ok := tree.Resolve(p)
			if !ok || len(rs) == 0 {
				continue
			}
			allowed, rok := model.Allowed(rs, res, kind == model.KFile)
			if !rok {
				return lib.Outcome{Skip: true}
			}
			if allowed {
				wantSecrets[secrets[res]] = true
			}
		}
	}
	o.NonTrivial, o.Classes = classify(c, tree, dir, allPaths, rs)
	o.Classes = append(o.Classes, "e2e")
	for _, r := range reqs {
		if strings.ContainsAny(r, "*?") {
			o.Classes = append(o.Classes, "glob")
			break
		}
	}
	// one session per request: several commands in one session are subject to the open finding C02/early-shutdown
	var stdout bytes.Buffer
	for i, req := range reqs {
		if len(expand(tree, absReqs[i])) == 0 {
			continue // nothing matches: the server sleeps 5 s before giving up; not interesting here
		}
		args := []string{"--plain", "--user", "alice", "--cfg", cfgPath, "--logLevel", "error", "--files", req}
		r := lib.RunClient("dcat", args, lib.RunOpts{Home: workdir, Timeout: 30 * time.Second})
		if r.TimedOut {
			o.Fail = fmt.Sprintf("dcat %q did not terminate within 30s (a special file was opened?)", args)
			return o
		}
		stdout.Write(r.Stdout)
	}
	r := lib.Result{Stdout: stdout.Bytes()}
	got := map[string]bool{}
	for _, sec := range secrets {
		if bytes.Contains(r.Stdout, []byte(sec+"\n")) {
			got[sec] = true
		}
	}
	var leaked, missing []string
	for s := range got {
		if !wantSecrets[s] {
			leaked = append(leaked, s)
		}
	}
	for s := range wantSecrets {
		if !got[s] {
			missing = append(missing, s)
		}
	}
	if len(leaked)+len(missing) > 0 {
		o.Fail = fmt.Sprintf("dcat --user alice %q under rules %q: leaked %v, not served %v", reqs, rs, leaked, missing)
		o.Observed = string(r.Stdout)
	}
	return o
}

func TestC08E2E(t *testing.T) {
	lib.Run(t, lib.Spec[permCase]{Prop: "C08", Check: "e2e",
		Rule: "same trees and rule lists, requested through the dcat binary (serverless, --user, --cfg with Permissions) as paths, relative paths and globs; each file holds a unique secret; oracle: the set of secrets on stdout == the set of files the model allows (both directions); non-trivial as for verdict; distinct by full case",
		Gen:  genCase(true), Eval: evalE2E})
}
