// vserver is cmd/dserver/main.go without user.NoRootCheck() (the sandbox has only
// root) and without pprof. Everything else - flag names, config.Setup, dlog.Start,
// server.New().Start - is what the shipped dserver does.
package main

import (
	"context"
	"flag"
	"os"
	"os/signal"
	"sync"
	"syscall"
	"time"

	"github.com/mimecast/dtail/internal/config"
	"github.com/mimecast/dtail/internal/io/dlog"
	"github.com/mimecast/dtail/internal/server"
	"github.com/mimecast/dtail/internal/source"
)

func main() {
	var args config.Args
	var color bool
	var shutdownAfter int

	flag.BoolVar(&color, "color", false, "Enable ANSII terminal colors")
	flag.IntVar(&args.SSHPort, "port", config.DefaultSSHPort, "SSH server port")
	flag.IntVar(&shutdownAfter, "shutdownAfter", 0, "Shutdown after so many seconds")
	flag.StringVar(&args.ConfigFile, "cfg", "", "Config file path")
	flag.StringVar(&args.LogDir, "logDir", "", "Log dir")
	flag.StringVar(&args.LogLevel, "logLevel", config.DefaultLogLevel, "Log level")
	flag.StringVar(&args.Logger, "logger", config.DefaultServerLogger, "Logger name")
	flag.StringVar(&args.SSHBindAddress, "bindAddress", "", "The SSH bind address")
	flag.Parse()
	args.NoColor = !color
	config.Setup(source.Server, &args, flag.Args())

	ctx, cancel := context.WithCancel(context.Background())
	if shutdownAfter > 0 {
		ctx, cancel = context.WithTimeout(ctx, time.Duration(shutdownAfter)*time.Second)
	}
	sigCh := make(chan os.Signal, 10)
	signal.Notify(sigCh, os.Interrupt, syscall.SIGTERM)
	go func() {
		select {
		case <-sigCh:
			cancel()
		case <-ctx.Done():
		}
	}()
	// Die with the harness: when the parent closes our stdin pipe, shut down.
	if os.Getenv("VSERVER_EXIT_ON_STDIN_EOF") == "yes" {
		go func() {
			buf := make([]byte, 16)
			for {
				if _, err := os.Stdin.Read(buf); err != nil {
					os.Exit(0)
				}
			}
		}()
	}

	var wg sync.WaitGroup
	wg.Add(1)
	dlog.Start(ctx, &wg, source.Server)

	serv := server.New()
	status := serv.Start(ctx)
	cancel()
	wg.Wait()
	os.Exit(status)
}
