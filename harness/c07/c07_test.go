package c07

import (
	"bytes"
	"fmt"
	"os"
	"path/filepath"
	"regexp"
	"strconv"
	"strings"
	"sync"
	"sync/atomic"
	"testing"
	"time"

	"github.com/mimecast/dtail/verif/lib"
	"pgregory.net/rapid"
)

var (
	root, home, keyPath string
	userKey             lib.KeyPair
	servers             []*lib.Server
	srvMu               sync.Mutex
	caseN               int64
)

const nServers = 6

func TestMain(m *testing.M) {
	lib.Main(m, func() {
		cwd, _ := os.Getwd()
		root, _ = os.MkdirTemp(cwd, "c07-")
		root, _ = filepath.EvalSymlinks(root)
		home = filepath.Join(root, "home")
		os.MkdirAll(home, 0o755)
		userKey = lib.NewKeyPair("tester")
	})
}

func pool() ([]*lib.Server, error) {
	srvMu.Lock()
	defer srvMu.Unlock()
	if len(servers) == nServers {
		ok := true
		for _, s := range servers {
			if !s.Alive() {
				ok = false
			}
		}
		if ok {
			return servers, nil
		}
		for _, s := range servers {
			s.Stop()
		}
		servers = nil
	}
	for k := 0; k < nServers; k++ {
		// server k only serves files below a directory named srv<k>
		perm := &lib.Permissions{Default: []string{"^" + regexp.QuoteMeta(root) + "/.*/srv" + strconv.Itoa(k) + "/.*"}}
		s, err := lib.StartServer(lib.ServerOpts{Dir: filepath.Join(root, fmt.Sprintf("server%d", k)), Label: fmt.Sprintf("host%d", k),
			Cfg: lib.ServerCfg{MaxConcurrentCats: 2, Permissions: perm}, Users: map[string][]string{"tester": {userKey.Authorized}}})
		if err != nil {
			return nil, err
		}
		servers = append(servers, s)
	}
	var err error
	keyPath, err = lib.ClientHome(home, userKey, servers...)
	return servers, err
}

type source struct {
	Server int
	File   int
	Lines  int
	LenK   int // line length class
	Seed   int
}

type multiCase struct {
	Sources    []source
	Serverless bool
	Grep       bool // dgrep selecting the lines whose number is even
}

var lenClasses = []int{1, 20, 200, 3000, 9000, 30000}

func genCase(t *rapid.T) multiCase {
	var c multiCase
	c.Serverless = rapid.IntRange(0, 4).Draw(t, "serverless") == 0
	c.Grep = rapid.IntRange(0, 3).Draw(t, "grep") == 0
	ns := rapid.IntRange(2, nServers).Draw(t, "nservers")
	if c.Serverless {
		ns = 1
	}
	used := rapid.Permutation([]int{0, 1, 2, 3, 4, 5}).Draw(t, "which")[:ns]
	for _, k := range used {
		nf := rapid.IntRange(1, 4).Draw(t, "nfiles")
		if c.Serverless {
			nf = rapid.IntRange(2, 5).Draw(t, "nfiles-sl")
		}
		for f := 0; f < nf; f++ {
			lk := rapid.IntRange(0, len(lenClasses)-1).Draw(t, "lenk")
			maxLines := []int{2000, 2000, 1000, 200, 60, 20}[lk]
			c.Sources = append(c.Sources, source{Server: k, File: f, Lines: rapid.IntRange(1, maxLines).Draw(t, "lines"), LenK: lk, Seed: rapid.IntRange(0, 1000).Draw(t, "seed")})
		}
	}
	return c
}

const alphabet = "abcdefghijklmnopqrstuvwxyzABCDEFGHIJKLMNOPQRSTUVWXYZ0123456789 .,:;|=%-_/"

// lineOf is the n-th line (1-based) of a source, without terminator: a tag plus a deterministic payload.
func lineOf(s source, n int) []byte {
	tag := fmt.Sprintf("S%d-F%d-L%d-", s.Server, s.File, n)
	want := lenClasses[s.LenK]
	// vary the length around the class
	want = want - (n*7+s.Seed)%(want/2+1)
	if want < len(tag) {
		return []byte(tag)
	}
	b := make([]byte, want)
	copy(b, tag)
	x := uint32(s.Seed*7919 + n*104729 + 1)
	for i := len(tag); i < want; i++ {
		x = x*1664525 + 1013904223
		b[i] = alphabet[(x>>16)%uint32(len(alphabet))]
	}
	if b[len(b)-1] == ' ' {
		b[len(b)-1] = '_'
	}
	return b
}

func evalCase(c multiCase) lib.Outcome {
	var o lib.Outcome
	id := atomic.AddInt64(&caseN, 1)
	cdir := filepath.Join(root, fmt.Sprintf("case%d", id%64))
	os.RemoveAll(cdir)
	defer os.RemoveAll(cdir)
	big, long := 0, false
	for _, s := range c.Sources {
		d := filepath.Join(cdir, fmt.Sprintf("srv%d", s.Server))
		os.MkdirAll(d, 0o755)
		var b bytes.Buffer
		for n := 1; n <= s.Lines; n++ {
			b.Write(lineOf(s, n))
			b.WriteByte('\n')
		}
		os.WriteFile(filepath.Join(d, fmt.Sprintf("f%d.log", s.File)), b.Bytes(), 0o644)
		if s.Lines >= 50 {
			big++
		}
		if lenClasses[s.LenK] > 8192 {
			long = true
		}
	}
	o.NonTrivial = big >= 2 || long
	o.Classes = []string{fmt.Sprintf("sources=%d", len(c.Sources))}
	if long {
		o.Classes = append(o.Classes, "line>8KiB")
	}
	if c.Serverless {
		o.Classes = append(o.Classes, "serverless")
	}
	if c.Grep {
		o.Classes = append(o.Classes, "grep")
	}
	glob := filepath.Join(cdir, "*", "*.log")
	bin := "dcat"
	args := []string{"--noColor", "--logLevel", "error"}
	if c.Grep {
		bin = "dgrep"
		args = append(args, "--regex", `^S[0-9]+-F[0-9]+-L[0-9]*[02468]-`)
	}
	hostOf := map[int]string{}
	env := []string{}
	if c.Serverless {
		env = append(env, "DTAIL_HOSTNAME_OVERRIDE=localbox")
		for _, s := range c.Sources {
			hostOf[s.Server] = "localbox"
		}
	} else {
		srvs, err := pool()
		if err != nil {
			return lib.Outcome{Inconclusive: "servers: " + err.Error()}
		}
		var addrs []string
		seen := map[int]bool{}
		for _, s := range c.Sources {
			if !seen[s.Server] {
				seen[s.Server] = true
				addrs = append(addrs, srvs[s.Server].Addr())
				hostOf[s.Server] = srvs[s.Server].Label
			}
		}
		args = append(args, "--servers", strings.Join(addrs, ","), "--user", "tester", "--key", keyPath)
	}
	args = append(args, "--files", glob)
	r := lib.RunClient(bin, args, lib.RunOpts{Home: home, Timeout: 120 * time.Second, Env: env})
	if r.TimedOut {
		o.Fail = fmt.Sprintf("%s %q did not terminate within 120 s", bin, args)
		return o
	}
	// ---- oracle
	type key struct {
		host, id string
	}
	src := map[key]source{}
	for _, s := range c.Sources {
		src[key{hostOf[s.Server], fmt.Sprintf("srv%d/f%d.log", s.Server, s.File)}] = s
	}
	last := map[key]int{}
	seenN := map[key]int{}
	out := r.Stdout
	if len(out) > 0 && out[len(out)-1] != '\n' {
		o.Fail = "output does not end with a newline (a torn last line)"
		o.Observed = tail(out)
		return o
	}
	for ln, l := range bytes.Split(bytes.TrimSuffix(out, []byte("\n")), []byte("\n")) {
		if len(out) == 0 {
			break
		}
		f := bytes.SplitN(l, []byte("|"), 6)
		switch {
		case len(f) >= 3 && (string(f[0]) == "SERVER" || string(f[0]) == "CLIENT"):
			continue // a well-formed log record (e.g. "Unable to read file(s)" for the other servers' directories)
		case len(f) == 6 && string(f[0]) == "REMOTE":
			k := key{string(f[1]), string(f[4])}
			s, ok := src[k]
			if !ok {
				o.Fail = fmt.Sprintf("output line %d is attributed to an unknown source (host %q, id %q)", ln+1, f[1], f[4])
				o.Observed = clip(l)
				return o
			}
			n, err := strconv.Atoi(string(f[3]))
			if err != nil || n < 1 || n > s.Lines {
				o.Fail = fmt.Sprintf("output line %d carries line number %q, source %v has %d lines", ln+1, f[3], k, s.Lines)
				o.Observed = clip(l)
				return o
			}
			if strings.TrimSpace(string(f[2])) != "100" {
				o.Fail = fmt.Sprintf("output line %d reports transmission percentage %q in a cat/grep session", ln+1, f[2])
				return o
			}
			if !bytes.Equal(f[5], lineOf(s, n)) {
				o.Fail = fmt.Sprintf("output line %d labelled %v #%d is not line %d of that source (fragment, merge or wrong label)", ln+1, k, n, n)
				o.Expected, o.Observed = clip(lineOf(s, n)), clip(f[5])
				return o
			}
			if n <= last[k] {
				o.Fail = fmt.Sprintf("source %v: line %d printed after line %d (order not kept or duplicate)", k, n, last[k])
				return o
			}
			step := 1
			if c.Grep {
				step = 2
			}
			if last[k] != 0 && n != last[k]+step || last[k] == 0 && n != step {
				o.Fail = fmt.Sprintf("source %v: line %d follows line %d (a selected line is missing)", k, n, last[k])
				return o
			}
			last[k] = n
			seenN[k]++
		default:
			o.Fail = fmt.Sprintf("output line %d is neither a REMOTE record nor a log record (a fragment?)", ln+1)
			o.Observed = clip(l)
			return o
		}
	}
	for k, s := range src {
		want := s.Lines
		if c.Grep {
			want = s.Lines / 2
		}
		if seenN[k] != want {
			o.Fail = fmt.Sprintf("source %v delivered %d lines, want %d (exit=%d)", k, seenN[k], want, r.Exit)
			o.Observed = tail(r.Stderr)
			return o
		}
	}
	if r.Exit != 0 {
		o.Fail = fmt.Sprintf("exit status %d; stderr=%q", r.Exit, tail(r.Stderr))
	}
	return o
}

func clip(b []byte) string {
	if len(b) > 300 {
		return fmt.Sprintf("%q...(%d bytes)...%q", b[:150], len(b), b[len(b)-100:])
	}
	return fmt.Sprintf("%q", b)
}

func tail(b []byte) string {
	if len(b) > 400 {
		b = b[len(b)-400:]
	}
	return string(b)
}

func TestC07Interleave(t *testing.T) {
	lib.Run(t, lib.Spec[multiCase]{Prop: "C07", Check: "interleave",
		Rule: "dcat / dgrep --noColor (record mode) with one glob against 2..6 real servers over SSH (distinct host labels; each server may only serve its own directory) x 1..4 files each, or serverless over 2..5 files; 1..2000 tagged lines per source with lengths from 1 B to 30 KiB; oracle: every output line is a well-formed log record or REMOTE|host|100|n|id|content with (host,id) a real source and content == line n of that source; per source n = 1,2,3,... (every second line for dgrep) with nothing missing; exit 0; non-trivial = >=2 sources with >=50 lines each, or a line > 8 KiB; distinct by case",
		Gen:  genCase, Eval: evalCase})
}
