package c07

import (
	"bytes"
	"fmt"
	"os"
	"path/filepath"
	"regexp"
	"strconv"
	"strings"
	"sync"
	"sync/atomic"
	"testing"
	"time"

	"github.com/mimecast/dtail/verif/lib"
	"github.com/mimecast/dtail/verif/model"
	"pgregory.net/rapid"
)

var (
	root, home, keyPath string
	userKey             lib.KeyPair
	servers             []*lib.Server
	srvMu               sync.Mutex
	caseN               int64
)

const nServers = 6

// maxLineLength is the MaxLineLength of the first half of the pool's servers (and of the client in half of the
// serverless sessions); the other half runs with the default of 1 MiB, so that records larger than one transport
// read (32 KiB) occur as well:
// small enough that generated lines reach and exceed it, so that split pieces take part in the interleaving.
const maxLineLength = 6000

const defaultMaxLineLength = 1 << 20

// llOf is the MaxLineLength in force for a source.
func llOf(c multiCase, server int) int {
	if c.Serverless {
		if c.SmallLL {
			return maxLineLength
		}
		return defaultMaxLineLength
	}
	if server < nServers/2 {
		return maxLineLength
	}
	return defaultMaxLineLength
}

func TestMain(m *testing.M) {
	lib.Main(m, func() {
		cwd, _ := os.Getwd()
		root, _ = os.MkdirTemp(cwd, "c07-")
		root, _ = filepath.EvalSymlinks(root)
		home = filepath.Join(root, "home")
		os.MkdirAll(home, 0o755)
		userKey = lib.NewKeyPair("tester")
	})
}

func pool() ([]*lib.Server, error) {
	srvMu.Lock()
	defer srvMu.Unlock()
	if len(servers) == nServers {
		ok := true
		for _, s := range servers {
			if !s.Alive() {
				ok = false
			}
		}
		if ok {
			return servers, nil
		}
		for _, s := range servers {
			s.Stop()
		}
		servers = nil
	}
	for k := 0; k < nServers; k++ {
		// server k only serves files below a directory named srv<k>
		perm := &lib.Permissions{Default: []string{"^" + regexp.QuoteMeta(root) + "/.*/srv" + strconv.Itoa(k) + "/.*"}}
		s, err := lib.StartServer(lib.ServerOpts{Dir: filepath.Join(root, fmt.Sprintf("server%d", k)), Label: fmt.Sprintf("host%d", k),
			Cfg: lib.ServerCfg{MaxConcurrentCats: 2, MaxLineLength: map[bool]int{true: maxLineLength, false: defaultMaxLineLength}[k < nServers/2], Permissions: perm}, Users: map[string][]string{"tester": {userKey.Authorized}}})
		if err != nil {
			return nil, err
		}
		servers = append(servers, s)
	}
	var err error
	keyPath, err = lib.ClientHome(home, userKey, servers...)
	return servers, err
}

type source struct {
	Server int
	File   int
	Lines  int
	LenK   int // line length class
	Seed   int
}

type multiCase struct {
	Sources    []source
	Serverless bool
	Grep       bool // dgrep selecting the lines whose number is even
	// grep context options (0 = not given)
	Before, After, Max int
	SmallLL            bool // serverless: MaxLineLength 6000 instead of the default
	GlobForm           int  // 0: shortest form; 1: '//' before the wildcards; 2: '/./' before them; 3: '/./' between them
}

// the class at index 4 is "around MaxLineLength" (see lineOf)
var lenClasses = []int{1, 20, 200, 3000, maxLineLength, 9000, 30000, 70000}

func genCase(t *rapid.T) multiCase {
	var c multiCase
	c.Serverless = rapid.IntRange(0, 4).Draw(t, "serverless") == 0
	c.SmallLL = rapid.Bool().Draw(t, "small-ll")
	c.GlobForm = rapid.SampledFrom([]int{0, 0, 0, 1, 2, 3}).Draw(t, "globform")
	c.Grep = rapid.IntRange(0, 3).Draw(t, "grep") == 0
	ns := rapid.IntRange(2, nServers).Draw(t, "nservers")
	if c.Serverless {
		ns = 1
	}
	used := rapid.Permutation([]int{0, 1, 2, 3, 4, 5}).Draw(t, "which")[:ns]
	for _, k := range used {
		nf := rapid.IntRange(1, 4).Draw(t, "nfiles")
		if c.Serverless {
			nf = rapid.IntRange(2, 5).Draw(t, "nfiles-sl")
		}
		for f := 0; f < nf; f++ {
			lk := rapid.IntRange(0, len(lenClasses)-1).Draw(t, "lenk")
			maxLines := []int{2000, 2000, 1000, 200, 100, 60, 40, 25}[lk]
			c.Sources = append(c.Sources, source{Server: k, File: f, Lines: rapid.IntRange(1, maxLines).Draw(t, "lines"), LenK: lk, Seed: rapid.IntRange(0, 1000).Draw(t, "seed")})
		}
	}
	if c.Grep && rapid.Bool().Draw(t, "context") {
		c.Before = rapid.SampledFrom([]int{0, 0, 1, 2, 3, 7}).Draw(t, "before")
		c.After = rapid.SampledFrom([]int{0, 0, 1, 2, 5}).Draw(t, "after")
		c.Max = rapid.SampledFrom([]int{0, 0, 1, 3, 40}).Draw(t, "max")
	}
	return c
}

const alphabet = "abcdefghijklmnopqrstuvwxyzABCDEFGHIJKLMNOPQRSTUVWXYZ0123456789 .,:;|=%-_/"

// lineOf is the n-th line (1-based) of a source, without terminator: a tag plus a deterministic payload.
func lineOf(s source, n int) []byte {
	tag := fmt.Sprintf("S%d-F%d-L%d-", s.Server, s.File, n)
	want := lenClasses[s.LenK]
	// vary the length around the class
	if s.LenK == 4 {
		// around MaxLineLength: M-40 .. M+39, so that some lines are split into a full piece and a short rest
		want = maxLineLength - 40 + (n*7+s.Seed)%80
	} else {
		want = want - (n*7+s.Seed)%(want/2+1)
	}
	if want < len(tag) {
		return []byte(tag)
	}
	b := make([]byte, want)
	copy(b, tag)
	x := uint32(s.Seed*7919 + n*104729 + 1)
	for i := len(tag); i < want; i++ {
		x = x*1664525 + 1013904223
		b[i] = alphabet[(x>>16)%uint32(len(alphabet))]
	}
	if b[len(b)-1] == ' ' {
		b[len(b)-1] = '_'
	}
	return b
}

func evalCase(c multiCase) lib.Outcome {
	var o lib.Outcome
	id := atomic.AddInt64(&caseN, 1)
	cdir := filepath.Join(root, fmt.Sprintf("case%d", id%64))
	os.RemoveAll(cdir)
	defer os.RemoveAll(cdir)
	big, long, split, huge := 0, false, false, false
	grepRe := regexp.MustCompile(`^S[0-9]+-F[0-9]+-L[0-9]*[02468]-`)
	// per source: the pieces the server makes of the file (lines cut at MaxLineLength) and which of them must be printed
	pieces := map[string][][]byte{}
	wantIdx := map[string][]int{}
	for _, s := range c.Sources {
		d := filepath.Join(cdir, fmt.Sprintf("srv%d", s.Server))
		os.MkdirAll(d, 0o755)
		var b bytes.Buffer
		for n := 1; n <= s.Lines; n++ {
			b.Write(lineOf(s, n))
			b.WriteByte('\n')
		}
		os.WriteFile(filepath.Join(d, fmt.Sprintf("f%d.log", s.File)), b.Bytes(), 0o644)
		id := fmt.Sprintf("srv%d/f%d.log", s.Server, s.File)
		ps := model.Pieces(model.SplitLong(b.Bytes(), llOf(c, s.Server)))
		for i := range ps {
			ps[i] = bytes.TrimSuffix(ps[i], []byte("\n"))
		}
		pieces[id] = ps
		if len(ps) > s.Lines {
			split = true
		}
		if c.Grep {
			sel := make([]bool, len(ps))
			for i, p := range ps {
				sel[i] = grepRe.Match(p)
			}
			wantIdx[id] = model.Grep(sel, c.Before, c.After, c.Max)
		} else {
			all := make([]int, len(ps))
			for i := range all {
				all[i] = i
			}
			wantIdx[id] = all
		}
		if s.Lines >= 50 {
			big++
		}
		if lenClasses[s.LenK] > 8192 {
			long = true
		}
		if lenClasses[s.LenK] > 32768 && llOf(c, s.Server) > 70000 {
			huge = true
		}
	}
	o.NonTrivial = big >= 2 || long
	o.Classes = []string{fmt.Sprintf("sources=%d", len(c.Sources))}
	if long {
		o.Classes = append(o.Classes, "line>8KiB")
	}
	if split {
		o.Classes = append(o.Classes, "line-split-at-MaxLineLength")
	}
	if huge {
		o.Classes = append(o.Classes, "record>32KiB")
	}
	if c.Serverless {
		o.Classes = append(o.Classes, "serverless")
	}
	if c.Grep {
		o.Classes = append(o.Classes, "grep")
	}
	if c.Before+c.After+c.Max > 0 {
		o.Classes = append(o.Classes, "grep-context")
	}
	cfgPath := filepath.Join(cdir, "client.json")
	lib.WriteCfg(cfgPath, lib.ServerCfg{MaxLineLength: llOf(c, 0), MaxConcurrentCats: 2})
	glob := filepath.Join(cdir, "*", "*.log")
	// the same files named by a glob that is not in its shortest form: the source id must not change
	switch c.GlobForm {
	case 1:
		glob = cdir + "//*/*.log"
	case 2:
		glob = cdir + "/./*/*.log"
	case 3:
		glob = cdir + "/*/./*.log"
	}
	if c.GlobForm != 0 {
		o.Classes = append(o.Classes, "glob-not-in-shortest-form")
	}
	bin := "dcat"
	args := []string{"--noColor", "--logLevel", "error", "--cfg", cfgPath}
	if c.Grep {
		bin = "dgrep"
		args = append(args, "--regex", grepRe.String())
		if c.Before > 0 {
			args = append(args, "--before", strconv.Itoa(c.Before))
		}
		if c.After > 0 {
			args = append(args, "--after", strconv.Itoa(c.After))
		}
		if c.Max > 0 {
			args = append(args, "--max", strconv.Itoa(c.Max))
		}
	}
	hostOf := map[int]string{}
	env := []string{}
	if c.Serverless {
		env = append(env, "DTAIL_HOSTNAME_OVERRIDE=localbox")
		for _, s := range c.Sources {
			hostOf[s.Server] = "localbox"
		}
	} else {
		srvs, err := pool()
		if err != nil {
			return lib.Outcome{Inconclusive: "servers: " + err.Error()}
		}
		var addrs []string
		seen := map[int]bool{}
		for _, s := range c.Sources {
			if !seen[s.Server] {
				seen[s.Server] = true
				addrs = append(addrs, srvs[s.Server].Addr())
				hostOf[s.Server] = srvs[s.Server].Label
			}
		}
		args = append(args, "--servers", strings.Join(addrs, ","), "--user", "tester", "--key", keyPath)
	}
	args = append(args, "--files", glob)
	r := lib.RunClient(bin, args, lib.RunOpts{Home: home, Timeout: 120 * time.Second, Env: env})
	if r.TimedOut {
		o.Fail = fmt.Sprintf("%s %q did not terminate within 120 s", bin, args)
		return o
	}
	// ---- oracle
	type key struct {
		host, id string
	}
	src := map[key]source{}
	for _, s := range c.Sources {
		src[key{hostOf[s.Server], fmt.Sprintf("srv%d/f%d.log", s.Server, s.File)}] = s
	}
	pos := map[key]int{} // how many records of the source were printed so far
	out := r.Stdout
	if len(out) > 0 && out[len(out)-1] != '\n' {
		o.Fail = "output does not end with a newline (a torn last line)"
		o.Observed = tail(out)
		return o
	}
	for ln, l := range bytes.Split(bytes.TrimSuffix(out, []byte("\n")), []byte("\n")) {
		if len(out) == 0 {
			break
		}
		f := bytes.SplitN(l, []byte("|"), 6)
		switch {
		case len(f) >= 3 && (string(f[0]) == "SERVER" || string(f[0]) == "CLIENT"):
			continue // a well-formed log record (e.g. "Unable to read file(s)" for the other servers' directories, "Long log line")
		case len(f) == 6 && string(f[0]) == "REMOTE":
			k := key{string(f[1]), string(f[4])}
			if _, ok := src[k]; !ok {
				o.Fail = fmt.Sprintf("output line %d is attributed to an unknown source (host %q, id %q)", ln+1, f[1], f[4])
				o.Observed = clip(l)
				return o
			}
			ps, want := pieces[k.id], wantIdx[k.id]
			n, err := strconv.Atoi(string(f[3]))
			if err != nil || n < 1 || n > len(ps) {
				o.Fail = fmt.Sprintf("output line %d carries line number %q, source %v has %d lines", ln+1, f[3], k, len(ps))
				o.Observed = clip(l)
				return o
			}
			if strings.TrimSpace(string(f[2])) != "100" {
				o.Fail = fmt.Sprintf("output line %d reports transmission percentage %q in a cat/grep session", ln+1, f[2])
				return o
			}
			if !bytes.Equal(f[5], ps[n-1]) {
				o.Fail = fmt.Sprintf("output line %d labelled %v #%d is not line %d of that source (fragment, merge or wrong label / number)", ln+1, k, n, n)
				o.Expected, o.Observed = clip(ps[n-1]), clip(f[5])
				return o
			}
			i := pos[k]
			if i >= len(want) {
				o.Fail = fmt.Sprintf("source %v: line %d printed although all %d selected lines were printed already (duplicate or not selected)", k, n, len(want))
				return o
			}
			if n != want[i]+1 {
				o.Fail = fmt.Sprintf("source %v: record %d carries line number %d, the next selected line is %d (missing, duplicated, reordered or misnumbered)", k, i+1, n, want[i]+1)
				o.Expected = fmt.Sprintf("before=%d after=%d max=%d", c.Before, c.After, c.Max)
				return o
			}
			pos[k]++
		default:
			o.Fail = fmt.Sprintf("output line %d is neither a REMOTE record nor a log record (a fragment?)", ln+1)
			o.Observed = clip(l)
			return o
		}
	}
	for k := range src {
		if pos[k] != len(wantIdx[k.id]) {
			o.Fail = fmt.Sprintf("source %v delivered %d lines, want %d (exit=%d)", k, pos[k], len(wantIdx[k.id]), r.Exit)
			o.Observed = tail(r.Stderr)
			return o
		}
	}
	if r.Exit != 0 {
		o.Fail = fmt.Sprintf("exit status %d; stderr=%q", r.Exit, tail(r.Stderr))
	}
	return o
}

func clip(b []byte) string {
	if len(b) > 300 {
		return fmt.Sprintf("%q...(%d bytes)...%q", b[:150], len(b), b[len(b)-100:])
	}
	return fmt.Sprintf("%q", b)
}

func tail(b []byte) string {
	if len(b) > 400 {
		b = b[len(b)-400:]
	}
	return string(b)
}

func TestC07Interleave(t *testing.T) {
	lib.Run(t, lib.Spec[multiCase]{Prop: "C07", Check: "interleave",
		Rule: "dcat / dgrep --noColor (record mode) with one glob against 2..6 real servers over SSH (distinct host labels; each server may only serve its own directory) x 1..4 files each, or serverless over 2..5 files; 1..2000 tagged lines per source with lengths from 1 B to 70 KiB incl. a class around MaxLineLength (6000 on half of the servers, so longer lines arrive as numbered pieces; 1 MiB on the others, so records of up to 70 KiB span several transport reads); dgrep with and without --before/--after/--max; the glob in its shortest form or with '//' / '/./' in it; oracle: every output line is a well-formed log record or REMOTE|host|100|n|id|content with (host,id) a real source and content == piece n of that source; per source the sequence of n is exactly the index list the grep reference model prescribes (1,2,3,... for dcat), nothing missing or repeated; exit 0; non-trivial = >=2 sources with >=50 lines each, or a line > 8 KiB; distinct by case",
		Gen:  genCase, Eval: evalCase})
}
