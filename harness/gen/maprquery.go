package gen

import (
	"strings"

	"pgregory.net/rapid"
)

// MaprQuery draws a semantically meaningful query over table tb (fields that exist, numeric
// aggregations over numeric keys); in wide mode it may also reference missing fields and
// aggregate non-numeric ones.
func MaprQuery(tb Table, wide bool) *rapid.Generator[Q] {
	return rapid.Custom(func(t *rapid.T) Q {
		var q Q
		var gkeys, tkeys []string
		for _, k := range tb.Keys {
			switch {
			case contains(tb.NumKeys, k):
			case k == "msg":
				tkeys = append(tkeys, k)
			default:
				gkeys = append(gkeys, k)
			}
		}
		strFields := append(append([]string{}, gkeys...), tkeys...)
		if tb.Format == "default" {
			strFields = append(strFields, "$time")
		}
		// set clause first (its variables may be selected / grouped by)
		var setVars []string
		if rapid.IntRange(0, 3).Draw(t, "hasset") == 0 {
			n := rapid.IntRange(1, 2).Draw(t, "nset")
			for i := 0; i < n; i++ {
				a := SetA{Var: []string{"$m", "$h"}[i]}
				switch rapid.IntRange(0, 4).Draw(t, "setk") {
				case 0:
					a.Kind, a.Arg = "float", "42"
				case 1:
					a.Kind, a.Arg = "string", rapid.SampledFrom([]string{"baz", "a b", "x"}).Draw(t, "sets")
				case 2:
					a.Kind, a.Arg = "field", rapid.SampledFrom(tb.Keys).Draw(t, "setf")
				default:
					a.Kind = "func"
					a.Funcs = rapid.SliceOfN(rapid.SampledFrom([]string{"md5sum", "maskdigits"}), 1, 2).Draw(t, "funcs")
					a.Arg = rapid.SampledFrom(append(append([]string{}, strFields...), tb.NumKeys...)).Draw(t, "farg")
				}
				q.Set = append(q.Set, a)
				setVars = append(setVars, a.Var)
			}
		}
		groupable := append(append([]string{}, gkeys...), setVars...)
		if tb.Format == "default" {
			groupable = append(groupable, "$time")
		}
		ns := rapid.IntRange(1, 5).Draw(t, "nsel")
		for i := 0; i < ns; i++ {
			switch rapid.IntRange(0, 9).Draw(t, "selk") {
			case 0, 1:
				q.Select = append(q.Select, Sel{Field: rapid.SampledFrom(groupable).Draw(t, "plain")})
			case 2:
				q.Select = append(q.Select, Sel{Agg: "count", Field: rapid.SampledFrom([]string{"$line", tb.Keys[0]}).Draw(t, "cntf")})
			case 3:
				q.Select = append(q.Select, Sel{Agg: rapid.SampledFrom([]string{"last", "len"}).Draw(t, "ll"), Field: rapid.SampledFrom(strFields).Draw(t, "llf")})
			case 4:
				if wide {
					q.Select = append(q.Select, Sel{Agg: rapid.SampledFrom(Aggs).Draw(t, "wagg"), Field: rapid.SampledFrom(append([]string{"nosuch"}, tb.Keys...)).Draw(t, "wf")})
					continue
				}
				fallthrough
			default:
				q.Select = append(q.Select, Sel{Agg: rapid.SampledFrom([]string{"count", "sum", "min", "max", "avg"}).Draw(t, "agg"), Field: rapid.SampledFrom(tb.NumKeys).Draw(t, "nf")})
			}
		}
		if tb.Format == "default" {
			q.Table = rapid.SampledFrom([]string{tb.Name, tb.Name, strings.ToLower(tb.Name), strings.Title(strings.ToLower(tb.Name))}).Draw(t, "from")
		} else {
			q.LogFormat = tb.Format
		}
		if rapid.IntRange(0, 2).Draw(t, "haswhere") == 0 {
			q.HasWhere = true
			nw := rapid.IntRange(1, 2).Draw(t, "nw")
			for i := 0; i < nw; i++ {
				var c Cond
				switch rapid.IntRange(0, 4).Draw(t, "wk") {
				case 0, 1:
					c = Cond{L: Arg{Kind: "field", S: rapid.SampledFrom(tb.NumKeys).Draw(t, "wl")}, Op: rapid.SampledFrom(FloatOps).Draw(t, "fop"),
						R: Arg{Kind: "float", S: rapid.SampledFrom([]string{"0", "3", "10", "5.5", "-2"}).Draw(t, "wr")}}
				case 2:
					c = Cond{L: Arg{Kind: "field", S: rapid.SampledFrom(tb.NumKeys).Draw(t, "wl")}, Op: rapid.SampledFrom(FloatOps).Draw(t, "fop"),
						R: Arg{Kind: "field", S: rapid.SampledFrom(tb.NumKeys).Draw(t, "wr2")}}
				default:
					c = Cond{L: Arg{Kind: "field", S: rapid.SampledFrom(strFields).Draw(t, "wls")}, Op: rapid.SampledFrom(StringOps).Draw(t, "sop"),
						R: Arg{Kind: "string", S: rapid.SampledFrom([]string{"a", "b", "dd", "1002-071143", "1", "e"}).Draw(t, "wrs")}}
				}
				q.Where = append(q.Where, c)
			}
		}
		if rapid.IntRange(0, 3).Draw(t, "hasgroup") > 0 {
			ng := rapid.IntRange(1, 2).Draw(t, "ng")
			for i := 0; i < ng; i++ {
				q.GroupBy = append(q.GroupBy, Field{Name: rapid.SampledFrom(groupable).Draw(t, "gb")})
			}
		}
		if rapid.Bool().Draw(t, "hasorder") {
			q.HasOrder = true
			q.OrderBy = rapid.IntRange(0, len(q.Select)-1).Draw(t, "ob")
			q.Reverse = rapid.Bool().Draw(t, "rev")
		}
		if rapid.IntRange(0, 3).Draw(t, "haslimit") == 0 {
			q.HasLimit = true
			q.Limit = rapid.IntRange(0, 6).Draw(t, "limit")
		}
		q.HasIntvl = true
		q.Interval = 3600
		return q
	})
}
