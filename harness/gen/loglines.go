package gen

import (
	"fmt"
	"strings"

	"pgregory.net/rapid"
)

// Row is one log line as key/value pairs in file order (nil value pointer = field missing).
type Row struct {
	Keys []string
	Vals []string
	Time string // $time of the default format
}

// Table is a set of log lines in one of the three formats.
type Table struct {
	Format string // default | generickv | csv
	Name   string // table name (default format)
	Keys   []string
	Rows   []Row
	Clean  bool // every row carries every key; numeric keys hold numbers
	// NumKeys are the keys whose values are numeric in a clean table.
	NumKeys []string
}

var valueWords = []string{"abc", "x1", "GET", "err", "ok", "a b", "-", "12ab", "v", "日本"}

func numVal(t *rapid.T) string {
	switch rapid.IntRange(0, 5).Draw(t, "numk") {
	case 0, 1, 2:
		return fmt.Sprint(rapid.IntRange(0, 20).Draw(t, "int"))
	case 3:
		return fmt.Sprintf("%d.%d", rapid.IntRange(0, 99).Draw(t, "ip"), rapid.IntRange(0, 999).Draw(t, "fp"))
	case 4:
		return fmt.Sprint(-rapid.IntRange(1, 50).Draw(t, "neg"))
	default:
		return fmt.Sprint(rapid.IntRange(100, 100000).Draw(t, "big"))
	}
}

// GenTable draws a table of log lines.
func GenTable(clean bool) *rapid.Generator[Table] {
	return rapid.Custom(func(t *rapid.T) Table {
		tb := Table{Clean: clean}
		tb.Format = rapid.SampledFrom([]string{"default", "default", "generickv", "csv"}).Draw(t, "format")
		tb.Name = rapid.SampledFrom([]string{"STATS", "T", "REQ"}).Draw(t, "table")
		// keys: 1-2 group-like keys with few distinct values, 1-3 numeric keys, 0-1 free text key
		ng := rapid.IntRange(1, 2).Draw(t, "ngk")
		nn := rapid.IntRange(1, 3).Draw(t, "nnk")
		gkeys := []string{"k", "host"}[:ng]
		nkeys := []string{"v", "w", "lat"}[:nn]
		tkeys := []string{}
		if rapid.Bool().Draw(t, "textkey") {
			tkeys = append(tkeys, "msg")
		}
		tb.Keys = append(append(append([]string{}, gkeys...), nkeys...), tkeys...)
		tb.NumKeys = nkeys
		gvals := map[string][]string{}
		for _, g := range gkeys {
			n := rapid.IntRange(1, 5).Draw(t, "ngv")
			gvals[g] = []string{"a", "b", "c", "dd", "e5"}[:n]
		}
		times := []string{"1002-071143", "1002-071147", "1002-071213"}
		nrows := rapid.SampledFrom([]int{1, 3, 8, 20, 60, 150, 300}).Draw(t, "maxrows")
		nrows = rapid.IntRange(1, nrows).Draw(t, "nrows")
		for i := 0; i < nrows; i++ {
			r := Row{Time: rapid.SampledFrom(times).Draw(t, "time")}
			for _, k := range tb.Keys {
				missing := !clean && rapid.IntRange(0, 7).Draw(t, "missing") == 0
				if missing && tb.Format != "csv" {
					continue
				}
				var v string
				switch {
				case missing:
					v = ""
				case contains(gkeys, k):
					v = rapid.SampledFrom(gvals[k]).Draw(t, "gv")
				case contains(nkeys, k):
					if !clean && rapid.IntRange(0, 9).Draw(t, "nonnum") == 0 {
						v = rapid.SampledFrom(valueWords).Draw(t, "word")
					} else {
						v = numVal(t)
					}
				default:
					v = rapid.SampledFrom(valueWords).Draw(t, "text")
				}
				r.Keys = append(r.Keys, k)
				r.Vals = append(r.Vals, v)
			}
			if len(r.Keys) == 0 {
				r.Keys, r.Vals = []string{tb.Keys[0]}, []string{"a"}
			}
			tb.Rows = append(tb.Rows, r)
		}
		return tb
	})
}

func contains(l []string, s string) bool {
	for _, x := range l {
		if x == s {
			return true
		}
	}
	return false
}

// Line renders row r in the table's format.
func (tb Table) Line(r Row) string {
	switch tb.Format {
	case "default":
		var sb strings.Builder
		sb.WriteString("INFO|" + r.Time + "|1|stats.go:56|8|13|7|0.21|471h0m21s|MAPREDUCE:" + tb.Name)
		for i, k := range r.Keys {
			sb.WriteString("|" + k + "=" + r.Vals[i])
		}
		return sb.String()
	case "generickv":
		var parts []string
		for i, k := range r.Keys {
			parts = append(parts, k+"="+r.Vals[i])
		}
		return strings.Join(parts, "|")
	default: // csv: all keys in header order
		return strings.Join(r.Vals, ",")
	}
}

// Header returns the csv header line.
func (tb Table) Header() string { return strings.Join(tb.Keys, ",") }

// Fields returns the field map the documented log format yields for row r (without host-dependent variables).
func (tb Table) Fields(r Row) map[string]string {
	m := map[string]string{"*": "*", "$line": tb.Line(r), "$empty": ""}
	for i, k := range r.Keys {
		m[k] = r.Vals[i]
	}
	if tb.Format == "default" {
		m["$time"] = r.Time
		m["$severity"], m["$loglevel"] = "INFO", "INFO"
		m["$pid"], m["$caller"], m["$cpus"], m["$goroutines"], m["$cgocalls"], m["$loadavg"], m["$uptime"] = "1", "stats.go:56", "8", "13", "7", "0.21", "471h0m21s"
	}
	return m
}
