package gen

import (
	"bytes"

	"pgregory.net/rapid"
)

// Hazard tokens: bytes and strings the wire protocol, the client dispatcher or the logger treat specially.
var Hazards = []string{"\xAC", "¬", "€", ".", "..", ".syn close connection", ".ack close connection", "REMOTE|a", "SERVER|x", "CLIENT|y|z", "|", ";", "\r", "\x00",
	"\x1b[31m", "protocol 4.1 base64 ", "∥", "≔", "AGGREGATE|h|", "\xff", "\xc2", "%", "base64%", " ", "\t"}

// ContentOpts steers the content generator.
type ContentOpts struct {
	M        int  // MaxLineLength of the case (for runs around M)
	NoAC     bool // exclude byte 0xAC (known finding F1)
	NoDot    bool // exclude pieces starting with '.' (known finding F2)
	MaxBytes int
	BigRuns  bool // allow runs around 32 KiB / 64 KiB
}

// Segment classes, for the distribution histogram.
type Content struct {
	Data    []byte
	Classes []string
}

func hasAC(b []byte) bool { return bytes.IndexByte(b, 0xAC) >= 0 }

// GenContent draws file content as a list of line segments from weighted classes.
func GenContent(o ContentOpts) *rapid.Generator[Content] {
	return rapid.Custom(func(t *rapid.T) Content {
		if o.MaxBytes == 0 {
			o.MaxBytes = 300 * 1024
		}
		var buf bytes.Buffer
		classes := map[string]bool{}
		nseg := rapid.IntRange(0, 12).Draw(t, "nseg")
		if rapid.IntRange(0, 9).Draw(t, "many") == 0 {
			nseg = rapid.IntRange(13, 300).Draw(t, "nsegmany")
		}
		byteGen := rapid.Byte()
		if o.NoAC {
			byteGen = rapid.Byte().Filter(func(b byte) bool { return b != 0xAC })
		}
		noNL := func(b []byte) []byte { return bytes.ReplaceAll(b, []byte("\n"), []byte("N")) }
		fill := func(n int, label string) []byte {
			// a run of n non-newline bytes: a short random seed repeated
			seed := rapid.SliceOfN(byteGen, 1, 16).Draw(t, label)
			seed = noNL(seed)
			out := make([]byte, 0, n)
			for len(out) < n {
				out = append(out, seed...)
			}
			return out[:n]
		}
		for i := 0; i < nseg && buf.Len() < o.MaxBytes; i++ {
			var seg []byte
			switch rapid.IntRange(0, 13).Draw(t, "segk") {
			case 0:
				classes["empty-line"] = true
			case 1, 2, 3:
				seg = []byte(rapid.StringMatching(`[a-zA-Z0-9 _.,:;|=-]{1,40}`).Draw(t, "ascii"))
			case 4, 5:
				seg = noNL(rapid.SliceOfN(byteGen, 1, 60).Draw(t, "bytes"))
				classes["arbitrary-bytes"] = true
			case 6, 7:
				h := []byte(rapid.SampledFrom(Hazards).Draw(t, "hazard"))
				pre := []byte(rapid.StringMatching(`[a-z ]{0,6}`).Draw(t, "hpre"))
				post := []byte(rapid.StringMatching(`[a-z ]{0,6}`).Draw(t, "hpost"))
				switch rapid.IntRange(0, 2).Draw(t, "hpos") {
				case 0:
					seg = append(h, post...)
				case 1:
					seg = append(append(pre, h...), post...)
				default:
					seg = append(pre, h...)
				}
				classes["hazard-token"] = true
			case 8, 9:
				if o.M > 0 && o.M <= 70000 {
					n := rapid.SampledFrom([]int{o.M - 1, o.M, o.M + 1, 2 * o.M, 2*o.M + 1, 3*o.M - 1}).Draw(t, "runM")
					if n < 1 {
						n = 1
					}
					seg = fill(n, "runseed")
					classes["run-around-M"] = true
				} else {
					seg = fill(rapid.IntRange(100, 3000).Draw(t, "run"), "runseed")
				}
			case 10:
				if o.BigRuns {
					n := rapid.SampledFrom([]int{32767, 32768, 32769, 40001, 65535, 65536, 65553, 100000}).Draw(t, "bigrun")
					seg = fill(n, "bigseed")
					classes["run>32KiB"] = true
				} else {
					seg = fill(rapid.IntRange(1000, 9000).Draw(t, "midrun"), "midseed")
				}
			case 11:
				seg = []byte(rapid.SampledFrom([]string{"\r", "a\r", "\x00\x00", "\xff\xfe", "€€€", "日本語", "\xe2\x82", "\xe2"}).Draw(t, "odd"))
				classes["odd-bytes"] = true
			default:
				seg = []byte(rapid.StringMatching(`INFO\|[0-9]{4}-[0-9]{6}\|[a-z]{3,8}\|[a-z=0-9|]{0,30}`).Draw(t, "logline"))
			}
			if o.NoAC && hasAC(seg) {
				seg = bytes.ReplaceAll(seg, []byte{0xAC}, []byte{0xAD})
			}
			buf.Write(seg)
			buf.WriteByte('\n')
		}
		if o.BigRuns && rapid.IntRange(0, 4).Draw(t, "lastline-hazard") == 0 {
			// the last line has a length that exactly fills, or just misses, a transport buffer / MaxLineLength
			cands := []int{32767, 32768, 32769, 65535, 65536, 65537, 32768 - 1, 2 * 32768}
			if o.M > 1 && o.M <= 70000 {
				cands = append(cands, o.M-1, o.M, o.M+1, o.M-1, o.M)
			}
			buf.Write(fill(rapid.SampledFrom(cands).Draw(t, "lastlen"), "lastseed"))
			buf.WriteByte('\n')
			classes["last-line-hazard-length"] = true
		}
		data := buf.Bytes()
		if len(data) > 0 && rapid.IntRange(0, 2).Draw(t, "nofinalnl") == 0 {
			data = data[:len(data)-1]
			classes["no-final-newline"] = true
		}
		for _, b := range data {
			if b >= 0x80 {
				classes["byte>=0x80"] = true
				break
			}
		}
		var cl []string
		for k := range classes {
			cl = append(cl, k)
		}
		return Content{Data: append([]byte(nil), data...), Classes: cl}
	})
}
