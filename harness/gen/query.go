// Package gen holds the rapid generators shared by the property checks.
package gen

import (
	"strconv"
	"strings"

	"pgregory.net/rapid"
)

// ---- abstract query ---------------------------------------------------------

// Sel is one item of the select list: FIELD or AGG(FIELD).
type Sel struct {
	Agg   string // "" | count sum min max avg last len
	Field string
	BQ    bool // rendered in back-quotes (keyword-named or literal "agg(x)" field)
}

// Storage is the name under which the item's value is stored / ordered by.
func (s Sel) Storage() string {
	if s.Agg == "" {
		return s.Field
	}
	return s.Agg + "(" + s.Field + ")"
}

// Arg is an argument of a where condition.
type Arg struct {
	Kind string // field | float | string
	S    string
	BQ   bool
}

// Cond is ARG OP ARG.
type Cond struct {
	L  Arg
	Op string
	R  Arg
}

// SetA is $VAR = FLOAT|STRING|FIELD|FUNCTION(FIELD).
type SetA struct {
	Var   string
	Kind  string   // float | string | field | bqfield | func
	Funcs []string // outermost first, for Kind func
	Arg   string
}

// Field is a field name with its quoting.
type Field struct {
	Name string
	BQ   bool
}

// Q is the abstract query.
type Q struct {
	Select     []Sel
	Table      string // "" = no from clause
	HasWhere   bool
	Where      []Cond
	Set        []SetA
	GroupBy    []Field
	HasOrder   bool
	OrderBy    int // index into Select
	Reverse    bool
	HasIntvl   bool
	Interval   int
	HasLimit   bool
	Limit      int
	HasOutfile bool
	Outfile    string
	OutQuoted  bool
	Append     bool
	LogFormat  string
}

// Keywords of the query language (clause starters).
var Keywords = []string{"select", "from", "where", "set", "group", "rorder", "order", "interval", "limit", "outfile", "logformat"}

// Aggs are the aggregation functions.
var Aggs = []string{"count", "sum", "min", "max", "avg", "last", "len"}

// FloatOps / StringOps are the documented operators.
var FloatOps = []string{"==", "!=", "<", "<=", ">", ">="}
var StringOps = []string{"eq", "ne", "contains", "ncontains", "lacks", "hasprefix", "nhasprefix", "hassuffix", "nhassuffix"}

func isReserved(s string) bool {
	l := strings.ToLower(s)
	for _, k := range Keywords {
		if l == k {
			return true
		}
	}
	switch l {
	case "by", "and", "append", "inf", "nan", "infinity":
		return true
	}
	if _, err := strconv.ParseFloat(s, 64); err == nil {
		return true
	}
	return false
}

// FieldName draws a bareword or $variable that is not reserved.
func FieldName() *rapid.Generator[string] {
	return rapid.Custom(func(t *rapid.T) string {
		for i := 0; ; i++ {
			var s string
			switch rapid.IntRange(0, 9).Draw(t, "fk") {
			case 0, 1:
				s = "$" + rapid.StringMatching(`[a-z]{1,6}`).Draw(t, "var")
			case 2:
				s = rapid.SampledFrom([]string{"$line", "$hostname", "$time", "$empty", "$timezone", "$loglevel", "$server"}).Draw(t, "dvar")
			case 3:
				s = rapid.StringMatching(`[a-z][a-zA-Z0-9_.]{0,8}`).Draw(t, "bw")
			default:
				s = rapid.SampledFrom([]string{"foo", "bar", "baz", "v", "w", "k", "goroutines", "lifetimeConnections", "x1", "responsecode"}).Draw(t, "cw")
			}
			if !isReserved(s) {
				return s
			}
			if i > 20 {
				return "fld" + strconv.Itoa(i)
			}
		}
	})
}

func genField(t *rapid.T, label string) Field {
	if rapid.IntRange(0, 11).Draw(t, label+"bq") == 0 {
		return Field{Name: rapid.SampledFrom(Keywords).Draw(t, label+"kw"), BQ: true}
	}
	return Field{Name: FieldName().Draw(t, label)}
}

// FloatLit draws a decimal literal.
func FloatLit() *rapid.Generator[string] {
	return rapid.OneOf(
		rapid.StringMatching(`-?[0-9]{1,4}`),
		rapid.StringMatching(`-?[0-9]{1,3}\.[0-9]{1,3}`),
		rapid.SampledFrom([]string{"0", "1", "2", "100", "3.14", "-1", "0.5"}),
	)
}

// StringLit draws the content of a quoted string (no double quote inside).
func StringLit() *rapid.Generator[string] {
	return rapid.OneOf(
		rapid.SampledFrom([]string{"free beer", "abc", "x", "a,b", "from", "select", " lead", "trail ", "a  b", "(", "x)", "f(x)", "`", "`q`", "´", "€uro", "and", "=", "100", "$foo", "a;b"}),
		rapid.StringMatching(`[a-zA-Z0-9 _.,:;()$=<>!%/-]{1,12}`),
		rapid.Just(""),
	)
}

func genArg(t *rapid.T, kinds []string, label string) Arg {
	k := rapid.SampledFrom(kinds).Draw(t, label+"kind")
	switch k {
	case "float":
		return Arg{Kind: "float", S: FloatLit().Draw(t, label+"f")}
	case "string":
		return Arg{Kind: "string", S: StringLit().Draw(t, label+"s")}
	}
	f := genField(t, label+"fld")
	return Arg{Kind: "field", S: f.Name, BQ: f.BQ}
}

// Opts restricts the generated queries.
type Opts struct {
	NoOutfile   bool
	NoLogFormat bool
	Fields      []string // if set, fields are drawn from here
}

// Query draws an abstract query.
func Query(o Opts) *rapid.Generator[Q] {
	return rapid.Custom(func(t *rapid.T) Q {
		var q Q
		n := rapid.IntRange(1, 5).Draw(t, "nsel")
		for i := 0; i < n; i++ {
			var s Sel
			switch rapid.IntRange(0, 9).Draw(t, "selkind") {
			case 0:
				// literal field that looks like an aggregation: `count($foo)`
				s = Sel{Field: rapid.SampledFrom(Aggs).Draw(t, "lagg") + "(" + FieldName().Draw(t, "lf") + ")", BQ: true}
			case 1, 2, 3:
				f := genField(t, "sf")
				s = Sel{Field: f.Name, BQ: f.BQ}
			default:
				s = Sel{Agg: rapid.SampledFrom(Aggs).Draw(t, "agg"), Field: FieldName().Draw(t, "af")}
			}
			q.Select = append(q.Select, s)
		}
		if rapid.IntRange(0, 9).Draw(t, "hasfrom") > 1 {
			q.Table = rapid.OneOf(rapid.StringMatching(`[a-zA-Z][a-zA-Z0-9_]{0,8}`), rapid.SampledFrom([]string{"stats", "STATS", ".", "Mixed"})).
				Filter(func(s string) bool { return !isReserved(s) }).Draw(t, "table")
		}
		if rapid.IntRange(0, 9).Draw(t, "haswhere") > 3 {
			q.HasWhere = true
			nw := rapid.IntRange(0, 4).Draw(t, "nwhere")
			for i := 0; i < nw; i++ {
				var c Cond
				if rapid.Bool().Draw(t, "floatop") {
					c.Op = rapid.SampledFrom(FloatOps).Draw(t, "fop")
					c.L = genArg(t, []string{"field", "field", "float"}, "wl")
					c.R = genArg(t, []string{"field", "float", "float"}, "wr")
				} else {
					c.Op = rapid.SampledFrom(StringOps).Draw(t, "sop")
					c.L = genArg(t, []string{"field", "field", "field", "string"}, "wl")
					c.R = genArg(t, []string{"field", "string", "string"}, "wr")
				}
				q.Where = append(q.Where, c)
			}
		}
		if rapid.IntRange(0, 9).Draw(t, "hasset") > 5 {
			ns := rapid.IntRange(1, 3).Draw(t, "nset")
			for i := 0; i < ns; i++ {
				a := SetA{Var: "$" + rapid.StringMatching(`[a-z]{1,5}`).Draw(t, "setvar")}
				switch rapid.IntRange(0, 5).Draw(t, "setkind") {
				case 0:
					a.Kind, a.Arg = "float", FloatLit().Draw(t, "setf")
				case 1:
					a.Kind, a.Arg = "string", StringLit().Draw(t, "sets")
				case 2:
					a.Kind = "bqfield"
					a.Arg = rapid.SampledFrom(Aggs).Draw(t, "sagg") + "(" + FieldName().Draw(t, "sbf") + ")"
				case 3:
					a.Kind, a.Arg = "field", FieldName().Draw(t, "setfld")
				default:
					a.Kind = "func"
					a.Funcs = rapid.SliceOfN(rapid.SampledFrom([]string{"md5sum", "maskdigits"}), 1, 3).Draw(t, "funcs")
					a.Arg = FieldName().Draw(t, "farg")
				}
				q.Set = append(q.Set, a)
			}
		}
		if rapid.IntRange(0, 9).Draw(t, "hasgroup") > 3 {
			ng := rapid.IntRange(1, 3).Draw(t, "ngroup")
			for i := 0; i < ng; i++ {
				q.GroupBy = append(q.GroupBy, genField(t, "gf"))
			}
		}
		if rapid.IntRange(0, 9).Draw(t, "hasorder") > 4 {
			q.HasOrder = true
			q.OrderBy = rapid.IntRange(0, len(q.Select)-1).Draw(t, "orderidx")
			q.Reverse = rapid.Bool().Draw(t, "reverse")
		}
		if rapid.IntRange(0, 9).Draw(t, "hasintvl") > 6 {
			q.HasIntvl = true
			q.Interval = rapid.IntRange(1, 3600).Draw(t, "interval")
		}
		if rapid.IntRange(0, 9).Draw(t, "haslimit") > 5 {
			q.HasLimit = true
			q.Limit = rapid.IntRange(0, 1000).Draw(t, "limit")
		}
		if !o.NoOutfile && rapid.IntRange(0, 9).Draw(t, "hasout") > 6 {
			q.HasOutfile = true
			q.OutQuoted = rapid.Bool().Draw(t, "outq")
			if q.OutQuoted {
				q.Outfile = rapid.OneOf(rapid.StringMatching(`[a-zA-Z0-9_./ -]{1,16}`), rapid.SampledFrom([]string{"result.csv", "/tmp/my out.csv", "limit", "a,b.csv"})).Draw(t, "outpath")
			} else {
				q.Outfile = rapid.StringMatching(`[a-zA-Z0-9_./-]{1,16}`).Filter(func(s string) bool { return !isReserved(s) }).Draw(t, "outpathb")
			}
			q.Append = rapid.Bool().Draw(t, "append")
		}
		if !o.NoLogFormat && rapid.IntRange(0, 9).Draw(t, "haslf") > 6 {
			q.LogFormat = rapid.SampledFrom([]string{"default", "generic", "generickv", "csv"}).Draw(t, "logformat")
		}
		return q
	})
}

// ---- rendering ---------------------------------------------------------------

// Surface holds the free choices of the concrete syntax.
type Surface struct {
	Order    []int // permutation of clause indices
	KwCase   []int // per keyword occurrence: 0 lower, 1 UPPER, 2 Title
	ListSep  []int // 0 ", "  1 ","  2 " "  3 " , "
	By       []bool
	CondSep  []int // 0 " and " 1 ", " 2 " " 3 " AND "
	OpUpper  []bool
	WS       []int // whitespace between tokens: 0 " " 1 "  " 2 "\t" 3 "\n" 4 "\r\n" 5 "\r" 6 "\v" 7 "\f"
	Trailing int   // 0 nothing 1 " " 2 ";"-less newline
	counters [6]int
}

// GenSurface draws the surface choices.
func GenSurface() *rapid.Generator[Surface] {
	return rapid.Custom(func(t *rapid.T) Surface {
		canonical := rapid.IntRange(0, 3).Draw(t, "canonical") == 0
		var s Surface
		if canonical {
			s.Order = []int{0, 1, 2, 3, 4, 5, 6, 7, 8, 9}
		} else {
			s.Order = rapid.Permutation([]int{0, 1, 2, 3, 4, 5, 6, 7, 8, 9}).Draw(t, "order")
		}
		s.KwCase = rapid.SliceOfN(rapid.IntRange(0, 2), 24, 24).Draw(t, "kwcase")
		s.ListSep = rapid.SliceOfN(rapid.IntRange(0, 3), 24, 24).Draw(t, "listsep")
		s.By = rapid.SliceOfN(rapid.Bool(), 4, 4).Draw(t, "by")
		s.CondSep = rapid.SliceOfN(rapid.IntRange(0, 3), 8, 8).Draw(t, "condsep")
		s.OpUpper = rapid.SliceOfN(rapid.Bool(), 8, 8).Draw(t, "opupper")
		s.WS = rapid.SliceOfN(rapid.SampledFrom([]int{0, 0, 0, 0, 0, 0, 1, 2, 3, 4, 4, 5, 6, 7}), 64, 64).Draw(t, "ws")
		s.Trailing = rapid.IntRange(0, 2).Draw(t, "trailing")
		return s
	})
}

// NonCanonical says whether the surface deviates from the canonical documented form.
func (s *Surface) NonCanonical() bool {
	for i, v := range s.Order {
		if i != v {
			return true
		}
	}
	return false
}

func (s *Surface) next(i int, n int) int {
	v := s.counters[i]
	s.counters[i]++
	return v % n
}

func (s *Surface) kw(k string) string {
	switch s.KwCase[s.next(0, len(s.KwCase))] {
	case 1:
		return strings.ToUpper(k)
	case 2:
		return strings.ToUpper(k[:1]) + k[1:]
	}
	return k
}

func (s *Surface) sep() string {
	return []string{", ", ",", " ", " , "}[s.ListSep[s.next(1, len(s.ListSep))]]
}

func (s *Surface) ws() string {
	// every character strings.Fields treats as ASCII white space (a query pasted from a file with DOS line ends is still the same query)
	return []string{" ", "  ", "\t", "\n", "\r\n", "\r", "\v", "\f"}[s.WS[s.next(2, len(s.WS))]]
}

// UsesUpper reports whether any keyword is rendered in non-lower case (approximation: any entry non-zero).
func (s *Surface) UsesUpper() bool {
	for _, v := range s.KwCase[:4] {
		if v != 0 {
			return true
		}
	}
	return false
}

func bq(name string, q bool) string {
	if q {
		return "`" + name + "`"
	}
	return name
}

func renderArg(a Arg) string {
	switch a.Kind {
	case "string":
		return `"` + a.S + `"`
	case "field":
		return bq(a.S, a.BQ)
	}
	return a.S
}

// RenderSet renders one set assignment's right-hand side.
func RenderSetRHS(a SetA) string {
	switch a.Kind {
	case "string":
		return `"` + a.Arg + `"`
	case "bqfield":
		return "`" + a.Arg + "`"
	case "func":
		s := a.Arg
		for i := len(a.Funcs) - 1; i >= 0; i-- {
			s = a.Funcs[i] + "(" + s + ")"
		}
		return s
	}
	return a.Arg
}

// Clauses renders each clause of q (index order: select from where group order set interval limit outfile logformat).
func Clauses(q Q, s *Surface) []string {
	out := make([]string, 10)
	// select
	{
		parts := []string{}
		for _, it := range q.Select {
			if it.Agg == "" {
				parts = append(parts, bq(it.Field, it.BQ))
			} else {
				parts = append(parts, it.Agg+"("+it.Field+")")
			}
		}
		var b strings.Builder
		b.WriteString(s.kw("select"))
		b.WriteString(s.ws())
		for i, p := range parts {
			if i > 0 {
				b.WriteString(s.sep())
			}
			b.WriteString(p)
		}
		out[0] = b.String()
	}
	if q.Table != "" {
		out[1] = s.kw("from") + s.ws() + q.Table
	}
	if q.HasWhere {
		var b strings.Builder
		b.WriteString(s.kw("where"))
		for i, c := range q.Where {
			if i > 0 {
				b.WriteString([]string{" and ", ", ", " ", " AND "}[s.CondSep[s.next(3, len(s.CondSep))]])
			} else {
				b.WriteString(s.ws())
			}
			op := c.Op
			if s.OpUpper[s.next(4, len(s.OpUpper))] {
				op = strings.ToUpper(op)
			}
			b.WriteString(renderArg(c.L) + s.ws() + op + s.ws() + renderArg(c.R))
		}
		out[2] = b.String()
	}
	if len(q.GroupBy) > 0 {
		var b strings.Builder
		b.WriteString(s.kw("group"))
		if s.By[0] {
			b.WriteString(s.ws() + s.kw("by"))
		}
		b.WriteString(s.ws())
		for i, f := range q.GroupBy {
			if i > 0 {
				b.WriteString(s.sep())
			}
			b.WriteString(bq(f.Name, f.BQ))
		}
		out[3] = b.String()
	}
	if q.HasOrder {
		k := "order"
		if q.Reverse {
			k = "rorder"
		}
		it := q.Select[q.OrderBy]
		key := it.Storage()
		if it.Agg == "" {
			key = bq(it.Field, it.BQ)
		}
		o := s.kw(k)
		if s.By[1] {
			o += s.ws() + s.kw("by")
		}
		out[4] = o + s.ws() + key
	}
	if len(q.Set) > 0 {
		var b strings.Builder
		b.WriteString(s.kw("set"))
		b.WriteString(s.ws())
		for i, a := range q.Set {
			if i > 0 {
				b.WriteString(s.sep())
			}
			b.WriteString(a.Var + s.ws() + "=" + s.ws() + RenderSetRHS(a))
		}
		out[5] = b.String()
	}
	if q.HasIntvl {
		out[6] = s.kw("interval") + s.ws() + strconv.Itoa(q.Interval)
	}
	if q.HasLimit {
		out[7] = s.kw("limit") + s.ws() + strconv.Itoa(q.Limit)
	}
	if q.HasOutfile {
		o := s.kw("outfile")
		if q.Append {
			o += s.ws() + "append"
		}
		p := q.Outfile
		if q.OutQuoted {
			p = `"` + p + `"`
		}
		out[8] = o + s.ws() + p
	}
	if q.LogFormat != "" {
		out[9] = s.kw("logformat") + s.ws() + q.LogFormat
	}
	return out
}

// Render renders q with surface s.
func Render(q Q, s Surface) string {
	cl := Clauses(q, &s)
	var parts []string
	for _, idx := range s.Order {
		if cl[idx] != "" {
			parts = append(parts, cl[idx])
		}
	}
	r := strings.Join(parts, " ")
	switch s.Trailing {
	case 1:
		r += " "
	case 2:
		r = " " + r + "\n"
	}
	return r
}

// Canonical renders q in the documented canonical form.
func Canonical(q Q) string {
	s := Surface{Order: []int{0, 1, 2, 3, 4, 5, 6, 7, 8, 9}, KwCase: []int{0}, ListSep: []int{0}, By: []bool{true, true, true, true},
		CondSep: []int{0}, OpUpper: []bool{false}, WS: []int{0}}
	return Render(q, s)
}

// NumClauses counts the clauses present.
func (q Q) NumClauses() int {
	n := 1
	for _, b := range []bool{q.Table != "", q.HasWhere, len(q.Set) > 0, len(q.GroupBy) > 0, q.HasOrder, q.HasIntvl, q.HasLimit, q.HasOutfile, q.LogFormat != ""} {
		if b {
			n++
		}
	}
	return n
}

// HasQuoted / HasBackquoted describe surface features.
func (q Q) HasQuoted() bool {
	for _, c := range q.Where {
		if c.L.Kind == "string" || c.R.Kind == "string" {
			return true
		}
	}
	for _, a := range q.Set {
		if a.Kind == "string" {
			return true
		}
	}
	return q.HasOutfile && q.OutQuoted
}

func (q Q) HasBackquoted() bool {
	for _, s := range q.Select {
		if s.BQ {
			return true
		}
	}
	for _, c := range q.Where {
		if c.L.BQ || c.R.BQ {
			return true
		}
	}
	for _, a := range q.Set {
		if a.Kind == "bqfield" {
			return true
		}
	}
	for _, g := range q.GroupBy {
		if g.BQ {
			return true
		}
	}
	return false
}
