package gen

import (
	"regexp"
	"strings"

	"pgregory.net/rapid"
)

// Pattern is a generated RE2 pattern together with an alphabet from which lines
// with a fair chance of both polarities can be drawn.
type Pattern struct {
	Expr     string
	Alphabet []string
}

var reAtoms = []string{"a", "b", "c", "ab", "1", "2", " ", "  ", ":", ";", ",", "%", "=", `\|`, "é", "€", `\.`, "-", "_", "/", "x"}
var reClasses = []string{"[ab]", "[^a]", "[a-c]", "[[:alpha:]]", "[[:digit:]]", `\d`, `\s`, `\w`, `\S`, `\D`, ".", "[ :;,%=]", `[^\s]`, "[€é]"}
var reAlphabet = []string{"a", "b", "c", "1", "2", " ", ":", ";", ",", "%", "=", "|", "é", "€", ".", "-", "_", "/", "x", "A", "B", "\t", "ab", "regex:", "base64%", "default", "invert"}

func genRe(t *rapid.T, depth int) string {
	k := rapid.IntRange(0, 11).Draw(t, "rek")
	if depth <= 0 && k > 5 {
		k = k % 6
	}
	switch k {
	case 0, 1, 2:
		return rapid.SampledFrom(reAtoms).Draw(t, "atom")
	case 3:
		return rapid.SampledFrom(reClasses).Draw(t, "class")
	case 4:
		return rapid.SampledFrom(reAtoms).Draw(t, "atom") + rapid.SampledFrom(reAtoms).Draw(t, "atom2")
	case 5:
		return rapid.SampledFrom(reClasses).Draw(t, "class") + rapid.SampledFrom([]string{"*", "+", "?", "{2}", "{1,3}", "{0,1}"}).Draw(t, "quant")
	case 6:
		return genRe(t, depth-1) + genRe(t, depth-1)
	case 7:
		return genRe(t, depth-1) + "|" + genRe(t, depth-1)
	case 8:
		return "(" + genRe(t, depth-1) + ")" + rapid.SampledFrom([]string{"", "*", "+", "?"}).Draw(t, "gq")
	case 9:
		return "(?:" + genRe(t, depth-1) + ")"
	case 10:
		return `\b` + genRe(t, depth-1)
	default:
		return genRe(t, depth-1) + rapid.SampledFrom(reAtoms).Draw(t, "atom")
	}
}

// Regex draws a pattern that regexp.Compile accepts.
func Regex() *rapid.Generator[Pattern] {
	return rapid.Custom(func(t *rapid.T) Pattern {
		var e string
		switch rapid.IntRange(0, 19).Draw(t, "special") {
		case 0:
			e = rapid.SampledFrom([]string{"", ".", ".*"}).Draw(t, "noop")
		case 1:
			e = rapid.SampledFrom([]string{"^$", "^", "$", `\s`, `\S`, "[^a]", "a$", "^a", `\n`, `a\n`, `^\s*$`, `.+`, `..`, `^.$`, `\|MAPREDUCE:STATS\|`, "regex:invert a", " a", "a ", " "}).Draw(t, "edge")
		default:
			e = genRe(t, rapid.IntRange(0, 3).Draw(t, "depth"))
			if rapid.IntRange(0, 5).Draw(t, "anchorl") == 0 {
				e = "^" + e
			}
			if rapid.IntRange(0, 5).Draw(t, "anchorr") == 0 {
				e = e + "$"
			}
			if rapid.IntRange(0, 9).Draw(t, "ci") == 0 {
				e = "(?i)" + e
			}
		}
		if _, err := regexp.Compile(e); err != nil {
			e = "a"
		}
		return Pattern{Expr: e, Alphabet: reAlphabet}
	})
}

// LineFor draws a line (without terminator) with a fair chance to match p.
func LineFor(p Pattern) *rapid.Generator[string] {
	return rapid.Custom(func(t *rapid.T) string {
		n := rapid.IntRange(0, 6).Draw(t, "linelen")
		var sb strings.Builder
		for i := 0; i < n; i++ {
			sb.WriteString(rapid.SampledFrom(p.Alphabet).Draw(t, "ch"))
		}
		return sb.String()
	})
}

// HasStructure reports whether the pattern contains an anchor, class or alternation.
func (p Pattern) HasStructure() bool {
	return strings.ContainsAny(p.Expr, `^$[|\`)
}
