// Package c02 checks property C02: in a cat or grep session every selected line of every requested file
// reaches the client's output exactly once and in file order, however slowly the output is consumed, however
// many files are requested and however reads queue behind the concurrency limit; the session then ends by
// itself with exit status 0.
//
// Layer "e2e": the real dcat / dgrep binaries (--plain), serverless or against a freshly started server
// process, with their stdout read by a pacing reader (small pipe, uniform slowness, stalls placed at a
// fraction of the stream or a few lines before its end) and with hook-placed delays at the shutdown
// handshake and between commands.
// Layer "handler": the real server handler in-process, commands written and output read by the harness at
// a generated pace (no client, no transport), so that queue-capacity effects are reached with small files.
package c02

import (
	"bytes"
	"compress/gzip"
	"fmt"
	"io"
	"os"
	"path/filepath"
	"regexp"
	"strconv"
	"strings"
	"sync/atomic"
	"syscall"
	"testing"
	"time"

	"github.com/DataDog/zstd"
	"github.com/mimecast/dtail/verif/lib"
	"pgregory.net/rapid"
)

var (
	root    string
	caseN   int64
	userKey lib.KeyPair
)

func TestMain(m *testing.M) {
	lib.Main(m, func() {
		lib.InitDtailServer()
		cwd, _ := os.Getwd()
		root, _ = os.MkdirTemp(cwd, "c02-")
		root, _ = filepath.EvalSymlinks(root)
		userKey = lib.NewKeyPair("tester")
	})
}

// ---- case -----------------------------------------------------------------------------

type fileSpec struct {
	Lines int
	LenK  int    // index into lenClasses
	Comp  string // "" | .gz | .zst : the file is stored compressed (the server decompresses by suffix)
}

// Stall pauses the consumer for Ms once At bytes were consumed (At < 0: that many bytes before the expected end).
type Stall struct {
	At int
	Ms int
}

type pace struct {
	Kind    string // fast | uniform | stalls
	Chunk   int    // bytes per read
	DelayUs int    // uniform: pause after every read
	Stalls  []Stall
	Pipe    int // pipe capacity to request (0 = default 64 KiB)
}

type e2eCase struct {
	SSH    bool
	Grep   bool
	Files  []fileSpec
	Shape  string // glob | list | repeat
	Cats   int
	Pace   pace
	Clean  bool     // take the known multi-command defect away by a hook await action
	Sched  []string // hook-placed delays
	Before int      // grep context (0 = none)
	// NoFinalNL: the (single) file's last line has no terminator (single-file sessions only: with several
	// sources an unterminated line legitimately runs into the next source's output)
	NoFinalNL bool
	// Procs: GOMAXPROCS of the process that hosts the server handler (0 = default): with one processor goroutines
	// interleave very differently (and per-P caches such as sync.Pool are shared by everything)
	Procs int
	// Decoys: directories whose names match the glob and sort before the files (unreadable entries among the matches)
	Decoys int
}

var lenClasses = []int{12, 60, 200, 1500}
var lineCounts = []int{0, 1, 2, 99, 100, 101, 199, 200, 201, 1000, 5000}

var perturb = []string{"srv.shutdown.afterflush=sleep:%dms", "srv.shutdown.begin=sleep:%dms", "cli.cmd.between=sleep:%dms", "srv.cmd.finished=sleep:%dms", "srv.cmd.received=sleep:%dms", "read.limiter.acquired=sleep:%dms", "read.limiter.released=sleep:%dms"}

func genPace(t *rapid.T, total int) pace {
	var p pace
	p.Kind = rapid.SampledFrom([]string{"fast", "uniform", "stalls", "stalls"}).Draw(t, "pace")
	p.Chunk = rapid.SampledFrom([]int{64, 512, 4096, 65536}).Draw(t, "chunk")
	p.Pipe = rapid.SampledFrom([]int{0, 4096}).Draw(t, "pipe")
	switch p.Kind {
	case "uniform":
		// aim at a total duration of at most ~1.5 s
		reads := total/p.Chunk + 1
		max := 1500000 / reads
		if max > 20000 {
			max = 20000
		}
		if max < 1 {
			max = 1
		}
		p.DelayUs = rapid.IntRange(1, max).Draw(t, "delay-us")
	case "stalls":
		n := rapid.IntRange(1, 3).Draw(t, "nstalls")
		for i := 0; i < n; i++ {
			var s Stall
			if rapid.Bool().Draw(t, "near-end") {
				// within the last few queue-loads of the stream
				// (over SSH about 2 MiB are in flight between server and consumer)
				s.At = -rapid.SampledFrom([]int{0, 1, 100, 3000, 20000, 60000, 300000, 1000000, 2300000, 3000000}).Draw(t, "before-end")
			} else if total > 0 {
				s.At = rapid.IntRange(0, total).Draw(t, "at")
			}
			s.Ms = rapid.SampledFrom([]int{50, 120, 300, 600, 1100, 1500, 3500, 5600}).Draw(t, "ms")
			p.Stalls = append(p.Stalls, s)
		}
	}
	return p
}

func genE2E(t *rapid.T) e2eCase {
	var c e2eCase
	c.SSH = rapid.IntRange(0, 2).Draw(t, "ssh") == 0
	c.Grep = rapid.IntRange(0, 2).Draw(t, "grep") == 0
	c.Shape = rapid.SampledFrom([]string{"glob", "glob", "list", "list", "repeat"}).Draw(t, "shape")
	nf := rapid.IntRange(1, 12).Draw(t, "nfiles")
	if c.Shape == "repeat" {
		nf = 1
	}
	total := 0
	for i := 0; i < nf; i++ {
		f := fileSpec{Lines: rapid.SampledFrom(lineCounts).Draw(t, "lines"), LenK: rapid.IntRange(0, len(lenClasses)-1).Draw(t, "lenk"),
			Comp: rapid.SampledFrom([]string{"", "", "", ".gz", ".zst"}).Draw(t, "comp")}
		if total+f.Lines*lenClasses[f.LenK] > 8000000 {
			f.Lines = 100
			f.LenK = 0
		}
		total += f.Lines * lenClasses[f.LenK]
		c.Files = append(c.Files, f)
	}
	c.Cats = rapid.SampledFrom([]int{1, 2, 2, 5}).Draw(t, "cats")
	c.Pace = genPace(t, total)
	if nf == 1 && c.Shape != "repeat" && c.Files[0].Lines > 0 && rapid.IntRange(0, 2).Draw(t, "nofinalnl") == 0 {
		c.NoFinalNL = true
	}
	c.Clean = rapid.IntRange(0, 3).Draw(t, "clean") > 0
	np := rapid.IntRange(0, 2).Draw(t, "nperturb")
	for i := 0; i < np; i++ {
		c.Sched = append(c.Sched, fmt.Sprintf(rapid.SampledFrom(perturb).Draw(t, "perturb"), rapid.SampledFrom([]int{1, 10, 60, 150}).Draw(t, "ms")))
	}
	if c.Grep && rapid.IntRange(0, 3).Draw(t, "ctx") == 0 {
		c.Before = rapid.IntRange(1, 3).Draw(t, "before")
	}
	c.Procs = rapid.SampledFrom([]int{0, 0, 1, 2}).Draw(t, "procs")
	if rapid.Bool().Draw(t, "allcomp1") && rapid.Bool().Draw(t, "allcomp2") {
		// every file in the same compressed format (readers of the same kind overlap)
		comp := rapid.SampledFrom([]string{".gz", ".zst"}).Draw(t, "allcomp")
		for i := range c.Files {
			c.Files[i].Comp = comp
		}
	}
	if c.Shape == "glob" && rapid.Bool().Draw(t, "decoys") {
		c.Decoys = rapid.IntRange(1, 6).Draw(t, "ndecoys")
	}
	if rapid.Bool().Draw(t, "lr1") && rapid.Bool().Draw(t, "lr2") && rapid.Bool().Draw(t, "lr3") {
		// a single file whose read lasts longer than the reader's 3 s housekeeping tick (truncation check), because the
		// consumer stalls early in the stream
		c.Shape = "glob"
		c.Files = []fileSpec{{Lines: rapid.SampledFrom([]int{1000, 5000}).Draw(t, "lr-lines"), LenK: rapid.IntRange(1, 2).Draw(t, "lr-lenk"),
			Comp: rapid.SampledFrom([]string{"", ".gz", ".zst"}).Draw(t, "lr-comp")}}
		c.NoFinalNL = rapid.Bool().Draw(t, "lr-nonl")
		c.SSH = rapid.IntRange(0, 2).Draw(t, "lr-ssh") == 0
		tot := c.Files[0].Lines * lenClasses[c.Files[0].LenK]
		c.Pace = pace{Kind: "stalls", Chunk: 4096, Pipe: 4096, Stalls: []Stall{{At: tot / rapid.SampledFrom([]int{20, 10, 3}).Draw(t, "lr-at"), Ms: 3500}}}
	}
	if c.NoFinalNL {
		// an unreadable glob match makes the server print a log record, which would follow the unterminated last line on
		// the same output line: the two shapes are not combined
		c.Decoys = 0
	}
	return c
}

const alphabet = "abcdefghijklmnopqrstuvwxyzABCDEFGHIJKLMNOPQRSTUVWXYZ0123456789 ,:;|=%-_/"

// lineOf is line n (1-based) of file f without terminator.
func lineOf(f int, spec fileSpec, n int) []byte {
	tag := fmt.Sprintf("F%d-L%d-", f, n)
	want := lenClasses[spec.LenK] - (n*7+f)%(lenClasses[spec.LenK]/3+1)
	if want < len(tag) {
		return []byte(tag)
	}
	b := make([]byte, want)
	copy(b, tag)
	x := uint32(f*7919 + n*104729 + 1)
	for i := len(tag); i < want; i++ {
		x = x*1664525 + 1013904223
		b[i] = alphabet[(x>>16)%uint32(len(alphabet))]
	}
	if b[len(b)-1] == ' ' {
		b[len(b)-1] = '_'
	}
	return b
}

var tagRe = regexp.MustCompile(`^F([0-9]+)-L([0-9]+)-`)

const grepPattern = `^F[0-9]+-L[0-9]*[02468]-`

// selected returns the line numbers (1-based) of file spec which the session must deliver, in order.
func selected(c e2eCase, spec fileSpec) []int {
	var out []int
	if !c.Grep {
		for n := 1; n <= spec.Lines; n++ {
			out = append(out, n)
		}
		return out
	}
	want := map[int]bool{}
	for n := 2; n <= spec.Lines; n += 2 {
		for k := n - c.Before; k <= n; k++ {
			if k >= 1 {
				want[k] = true
			}
		}
	}
	for n := 1; n <= spec.Lines; n++ {
		if want[n] {
			out = append(out, n)
		}
	}
	return out
}

// ---- pacing reader ---------------------------------------------------------------------

func pacedRead(r io.Reader, p pace, total int, out *bytes.Buffer, paused *int64) {
	if f, ok := r.(*os.File); ok && p.Pipe > 0 {
		syscall.Syscall(syscall.SYS_FCNTL, f.Fd(), 1031 /* F_SETPIPE_SZ */, uintptr(p.Pipe))
	}
	buf := make([]byte, p.Chunk)
	done := make([]bool, len(p.Stalls))
	consumed := 0
	for {
		for i, s := range p.Stalls {
			at := s.At
			if at < 0 {
				at = total + s.At
				if at < 0 {
					at = 0
				}
			}
			if !done[i] && consumed >= at {
				done[i] = true
				time.Sleep(time.Duration(s.Ms) * time.Millisecond)
				atomic.AddInt64(paused, int64(s.Ms))
			}
		}
		n, err := r.Read(buf)
		out.Write(buf[:n])
		consumed += n
		if err != nil {
			return
		}
		if p.Kind == "uniform" {
			time.Sleep(time.Duration(p.DelayUs) * time.Microsecond)
			atomic.AddInt64(paused, int64(p.DelayUs)/1000)
		}
	}
}

// ---- evaluation ------------------------------------------------------------------------------

type traceInfo struct{ names []string }

func readTrace(path string) traceInfo {
	var ti traceInfo
	b, err := os.ReadFile(path)
	if err != nil {
		return ti
	}
	for _, l := range strings.Split(string(b), "\n") {
		if f := strings.Fields(l); len(f) == 2 {
			ti.names = append(ti.names, f[1])
		}
	}
	return ti
}

// earlyShutdown recognises the known defect: the session began to shut down before all ncmds commands had arrived.
func (ti traceInfo) earlyShutdown(ncmds int) string {
	received := 0
	for _, n := range ti.names {
		switch n {
		case "srv.cmd.received":
			received++
		case "srv.shutdown.begin":
			if received < ncmds {
				return fmt.Sprintf("srv.shutdown.begin after %d of %d commands had arrived", received, ncmds)
			}
			return ""
		}
	}
	return ""
}

func evalE2E(c e2eCase) lib.Outcome {
	o, _ := runE2E(c, true)
	return o
}

func runE2E(c e2eCase, firstLook bool) (o lib.Outcome, timedOut bool) {
	id := atomic.AddInt64(&caseN, 1)
	cdir := filepath.Join(root, fmt.Sprintf("e%d-%d", os.Getpid(), id))
	data := filepath.Join(cdir, "data")
	home := filepath.Join(cdir, "home")
	os.MkdirAll(data, 0o755)
	os.MkdirAll(home, 0o755)
	defer os.RemoveAll(cdir)

	var paths []string
	total, nsel := 0, 0
	for f, spec := range c.Files {
		var b bytes.Buffer
		for n := 1; n <= spec.Lines; n++ {
			b.Write(lineOf(f, spec, n))
			b.WriteByte('\n')
		}
		content := b.Bytes()
		if c.NoFinalNL && len(content) > 0 {
			content = content[:len(content)-1]
		}
		switch spec.Comp {
		case ".gz":
			var z bytes.Buffer
			w := gzip.NewWriter(&z)
			w.Write(content)
			w.Close()
			content = z.Bytes()
		case ".zst":
			content, _ = zstd.Compress(nil, content)
		}
		p := filepath.Join(data, fmt.Sprintf("f%02d.log%s", f, spec.Comp))
		os.WriteFile(p, content, 0o644)
		paths = append(paths, p)
	}
	for i := 0; i < c.Decoys && c.Shape == "glob"; i++ {
		os.MkdirAll(filepath.Join(data, fmt.Sprintf("a%02d.log", i)), 0o755)
	}
	reps := 1
	var what string
	switch c.Shape {
	case "glob":
		what = filepath.Join(data, "*.log*")
	case "list":
		what = strings.Join(paths, ",")
	default:
		reps = 2
		what = paths[0] + "," + paths[0]
	}
	ncmds := 1
	if c.Shape != "glob" {
		ncmds = len(strings.Split(what, ","))
	}
	for f, spec := range c.Files {
		for _, n := range selected(c, spec) {
			total += (len(lineOf(f, spec, n)) + 1) * reps
			nsel += reps
		}
	}
	var sched []string
	if c.Clean && ncmds > 1 {
		sched = append(sched, fmt.Sprintf("srv.cmd.finished=await:srv.cmd.received:%d", ncmds))
	}
	for _, p := range c.Sched {
		if c.Clean && ncmds > 1 && strings.HasPrefix(p, "srv.cmd.finished=") {
			continue
		}
		sched = append(sched, p)
	}
	schedStr := strings.Join(sched, ";")

	bin := "dcat"
	args := []string{"--plain", "--logLevel", "error"}
	if c.Grep {
		bin = "dgrep"
		args = append(args, "--regex", grepPattern)
		if c.Before > 0 {
			args = append(args, "--before", strconv.Itoa(c.Before))
		}
	}
	tracePath := filepath.Join(cdir, "trace")
	env := []string{}
	var srv *lib.Server
	if c.SSH {
		var err error
		srv, err = lib.StartServer(lib.ServerOpts{Dir: filepath.Join(cdir, "server"), Label: "hostx",
			Cfg:   lib.ServerCfg{MaxConcurrentCats: c.Cats},
			Users: map[string][]string{"tester": {userKey.Authorized}},
			Env:   append([]string{"VHOOK_TRACE=" + tracePath, "VHOOK_SCHED=" + schedStr}, procsEnv(c.Procs)...)})
		if err != nil {
			return lib.Outcome{Inconclusive: "server start: " + err.Error()}, false
		}
		defer srv.Stop()
		keyPath, err := lib.ClientHome(home, userKey, srv)
		if err != nil {
			return lib.Outcome{Inconclusive: err.Error()}, false
		}
		args = append(args, "--servers", srv.Addr(), "--user", "tester", "--key", keyPath)
		var cs []string
		for _, p := range c.Sched {
			if strings.HasPrefix(p, "cli.") {
				cs = append(cs, p)
			}
		}
		env = append(env, "VHOOK_SCHED="+strings.Join(cs, ";"))
	} else {
		cfg := filepath.Join(cdir, "client.json")
		lib.WriteCfg(cfg, lib.ServerCfg{MaxConcurrentCats: c.Cats})
		args = append(args, "--cfg", cfg)
		env = append(env, "VHOOK_TRACE="+tracePath, "VHOOK_SCHED="+schedStr)
		env = append(env, procsEnv(c.Procs)...)
	}
	args = append(args, "--files", what)

	pauses := 0
	for _, s := range c.Pace.Stalls {
		pauses += s.Ms
	}
	if c.Pace.Kind == "uniform" {
		pauses += (total/c.Pace.Chunk + 1) * c.Pace.DelayUs / 1000
	}
	deadline := 60*time.Second + time.Duration(pauses)*time.Millisecond*2
	var out bytes.Buffer
	var paused int64
	r := lib.RunClient(bin, args, lib.RunOpts{Home: home, Timeout: deadline, Env: env,
		StdoutPipe: func(rd io.Reader) { pacedRead(rd, c.Pace, total, &out, &paused) }})

	ti := readTrace(tracePath)
	known := ""
	if !(c.Clean && ncmds > 1) {
		known = ti.earlyShutdown(ncmds)
	}

	// classes
	o.Classes = []string{"pace=" + c.Pace.Kind, "shape=" + c.Shape, fmt.Sprintf("cats=%d", c.Cats)}
	for _, spec := range c.Files {
		if spec.Comp != "" {
			o.Classes = append(o.Classes, "compressed-file")
			break
		}
	}
	if c.NoFinalNL {
		o.Classes = append(o.Classes, "unterminated-last-line")
	}
	if c.Procs > 0 {
		o.Classes = append(o.Classes, fmt.Sprintf("GOMAXPROCS=%d", c.Procs))
	}
	if c.Decoys > 0 && c.Shape == "glob" {
		o.Classes = append(o.Classes, "unreadable-entries-among-the-glob-matches")
	}
	if len(c.Files) == 1 && c.Files[0].Lines >= 1000 && len(c.Pace.Stalls) > 0 && c.Pace.Stalls[0].Ms >= 3500 && c.Pace.Stalls[0].At > 0 {
		o.Classes = append(o.Classes, "read-longer-than-3s")
	}
	if c.SSH {
		o.Classes = append(o.Classes, "ssh")
	} else {
		o.Classes = append(o.Classes, "serverless")
	}
	if c.Grep {
		o.Classes = append(o.Classes, "grep")
	}
	if ncmds > 1 && c.Clean {
		o.Classes = append(o.Classes, "multi-command-clean-space")
	} else if ncmds > 1 {
		o.Classes = append(o.Classes, "multi-command-free-space")
	}
	if len(c.Files) > c.Cats {
		o.Classes = append(o.Classes, "files>limit")
	}
	if len(c.Sched) > 0 {
		o.Classes = append(o.Classes, "hook-delays")
	}
	for _, s := range c.Pace.Stalls {
		if s.At < 0 {
			o.Classes = append(o.Classes, "stall-near-end")
		}
		if s.Ms >= 3000 {
			o.Classes = append(o.Classes, "stall>=3s")
		}
	}
	o.NonTrivial = ncmds >= 2 || len(c.Files) > c.Cats || (c.Pace.Kind != "fast" && nsel > 200)

	trace := map[string]interface{}{"exit": r.Exit, "wall_ms": r.Wall.Milliseconds(), "known_signature": known, "sched": schedStr, "stderr": tailS(string(r.Stderr), 400)}
	fail := func(msg string, exp, obs interface{}) (lib.Outcome, bool) {
		o.Fail, o.Expected, o.Observed, o.Trace = msg, exp, obs, trace
		if known != "" {
			o.KnownKey = "session-ends-before-all-commands-arrived"
		}
		return o, false
	}
	if r.TimedOut {
		if known != "" {
			return fail(fmt.Sprintf("%s did not end within %v", bin, deadline), nil, nil)
		}
		if !firstLook {
			return o, true
		}
		// a second look with a fast consumer and no hook delays decides
		c2 := c
		c2.Pace = pace{Kind: "fast", Chunk: 65536}
		c2.Sched = nil
		if _, again := runE2E(c2, false); again {
			return fail(fmt.Sprintf("%s did not end by itself within %v (pauses %d ms), and not within 60 s with a fast consumer either", bin, deadline, pauses), nil, nil)
		}
		o.Inconclusive = fmt.Sprintf("%s still running %v after start (pauses %d ms) but ended with a fast consumer; not counted as a violation", bin, deadline, pauses)
		return o, false
	}
	// ---- oracle: project stdout onto the tagged lines
	seen := map[int][]int{}
	stdout := out.Bytes()
	lastSelected := false
	if c.NoFinalNL {
		sel := selected(c, c.Files[0])
		lastSelected = len(sel) > 0 && sel[len(sel)-1] == c.Files[0].Lines
	}
	if lastSelected {
		if len(stdout) > 0 && stdout[len(stdout)-1] == '\n' {
			return fail("the file's last line has no terminator but the output ends with a newline", nil, tailS(string(stdout), 200))
		}
		stdout = append(append([]byte(nil), stdout...), '\n')
	}
	if len(stdout) > 0 && stdout[len(stdout)-1] != '\n' {
		return fail("output does not end with a newline (torn last line)", nil, tailS(string(stdout), 300))
	}
	for ln, l := range bytes.Split(bytes.TrimSuffix(stdout, []byte("\n")), []byte("\n")) {
		if len(stdout) == 0 {
			break
		}
		m := tagRe.FindSubmatch(l)
		if m == nil {
			if bytes.HasPrefix(l, []byte("CLIENT|")) || bytes.HasPrefix(l, []byte("SERVER|")) {
				continue
			}
			return fail(fmt.Sprintf("output line %d is neither a line of a requested file nor a log record (fragment?)", ln+1), nil, tailS(string(l), 300))
		}
		f, _ := strconv.Atoi(string(m[1]))
		n, _ := strconv.Atoi(string(m[2]))
		if f >= len(c.Files) || n < 1 || n > c.Files[f].Lines {
			return fail(fmt.Sprintf("output line %d carries a tag that no requested file has", ln+1), nil, tailS(string(l), 300))
		}
		if !bytes.Equal(l, lineOf(f, c.Files[f], n)) {
			return fail(fmt.Sprintf("output line %d is not line %d of file %d (corrupted / fragment / merged)", ln+1, n, f), tailS(string(lineOf(f, c.Files[f], n)), 300), tailS(string(l), 300))
		}
		seen[f] = append(seen[f], n)
	}
	for f, spec := range c.Files {
		want := selected(c, spec)
		got := seen[f]
		if reps == 1 {
			if msg := sameSeq(want, got); msg != "" {
				return fail(fmt.Sprintf("file %d (%d lines): %s; delivered %d of %d selected lines (exit=%d)", f, spec.Lines, msg, len(got), len(want), r.Exit),
					nil, map[string]interface{}{"first_delivered": head(got, 10), "last_delivered": tailI(got, 10)})
			}
		} else {
			// the same file twice: the output must be an interleaving of two copies of the selected sequence
			if msg := twoCopies(want, got); msg != "" {
				return fail(fmt.Sprintf("file %d requested twice: %s; delivered %d of %d lines (exit=%d)", f, msg, len(got), 2*len(want), r.Exit), nil, nil)
			}
		}
	}
	if r.Exit != 0 {
		return fail(fmt.Sprintf("exit status %d; stderr=%s", r.Exit, tailS(string(r.Stderr), 400)), nil, nil)
	}
	return o, false
}

func procsEnv(n int) []string {
	if n <= 0 {
		return nil
	}
	return []string{fmt.Sprintf("GOMAXPROCS=%d", n)}
}

func sameSeq(want, got []int) string {
	for i := 0; i < len(want) && i < len(got); i++ {
		if want[i] != got[i] {
			if got[i] > want[i] {
				return fmt.Sprintf("line %d is missing (line %d arrived in its place)", want[i], got[i])
			}
			return fmt.Sprintf("line %d arrived again or out of order (expected line %d next)", got[i], want[i])
		}
	}
	if len(got) < len(want) {
		return fmt.Sprintf("the last %d selected lines are missing (from line %d on)", len(want)-len(got), want[len(got)])
	}
	if len(got) > len(want) {
		return fmt.Sprintf("%d lines too many (first extra: line %d)", len(got)-len(want), got[len(want)])
	}
	return ""
}

func twoCopies(want, got []int) string {
	if len(got) != 2*len(want) {
		return fmt.Sprintf("expected %d lines, got %d", 2*len(want), len(got))
	}
	// greedy split into two increasing subsequences each equal to want
	a, b := 0, 0
	for _, n := range got {
		switch {
		case a < len(want) && want[a] == n && (b >= len(want) || want[b] != n || a >= b):
			a++
		case b < len(want) && want[b] == n:
			b++
		case a < len(want) && want[a] == n:
			a++
		default:
			return fmt.Sprintf("line %d fits neither copy (copies at %d and %d)", n, a, b)
		}
	}
	if a != len(want) || b != len(want) {
		return "the two copies are incomplete"
	}
	return ""
}

func head(l []int, n int) []int {
	if len(l) > n {
		return l[:n]
	}
	return l
}

func tailI(l []int, n int) []int {
	if len(l) > n {
		return l[len(l)-n:]
	}
	return l
}

func tailS(s string, n int) string {
	if len(s) > n {
		return "..." + s[len(s)-n:]
	}
	return s
}

const e2eRule = "real dcat / dgrep --plain (even-numbered lines, optionally --before), serverless or against a freshly started server process; 1..12 files with line counts around the queue capacities {0,1,2,99,100,101,199,200,201,1000,5000} and 12..1500-byte tagged lines, stored plain, gzip or zstd, a single file optionally without final newline; one glob, one command per file, or the same file twice; MaxConcurrentCats in {1,2,5}; GOMAXPROCS default/1/2 for the process hosting the server handler; 0..6 directories among the glob's matches; consumer pacing: fast / uniformly slow / 1-3 stalls of 50 ms..5.6 s at a fraction of the stream or 0..3000000 bytes before its end, 64 B..64 KiB reads, 4 KiB or 64 KiB pipe; 0-2 hook-placed delays at the shutdown handshake, command loop and limiter. Oracle: per file the delivered tagged lines are exactly the selected lines, once, in order (two complete copies for a file requested twice); any other stdout line is a CLIENT|/SERVER| record; exit 0; the session ends within 60 s + 2 x pauses (a miss is re-examined with a fast consumer before it is reported). Multi-command sessions: in the clean space a hook await removes the known defect (server cannot know that more commands follow); in the free space a failure needs that defect's trace signature. Non-trivial = >=2 commands, or more files than limiter slots, or a paced consumer with > 200 selected lines"

func TestC02E2E(t *testing.T) {
	lib.Run(t, lib.Spec[e2eCase]{Prop: "C02", Check: "e2e", Rule: e2eRule, Gen: genE2E, Eval: evalE2E})
}

// ---- layer "handler": the server handler in-process, harness as client ------------------------------

type hCase struct {
	Grep    bool
	Files   []fileSpec
	Shape   string // glob | list | repeat
	Cats    int
	ReadBuf int
	// GapUs: pause between two commands written by the harness (client side pacing of the command loop)
	GapUs int
	// Pauses: the harness (as the client) pauses Ms before its Read number AtRead (negative: counted from the expected last message)
	Pauses []hPause
	Clean  bool
	Sched  []string
}

type hPause struct {
	AtMsg int // pause before taking message number AtMsg (negative: that many messages before the expected end)
	Ms    int
}

var hLineCounts = []int{0, 1, 2, 50, 99, 100, 101, 150, 199, 200, 201, 202, 250, 400}

func genH(t *rapid.T) hCase {
	var c hCase
	c.Grep = rapid.IntRange(0, 2).Draw(t, "grep") == 0
	c.Shape = rapid.SampledFrom([]string{"glob", "glob", "list", "list", "repeat"}).Draw(t, "shape")
	nf := rapid.IntRange(1, 6).Draw(t, "nfiles")
	if c.Shape == "repeat" {
		nf = 1
	}
	for i := 0; i < nf; i++ {
		c.Files = append(c.Files, fileSpec{Lines: rapid.SampledFrom(hLineCounts).Draw(t, "lines"), LenK: rapid.IntRange(0, 1).Draw(t, "lenk")})
	}
	c.Cats = rapid.SampledFrom([]int{1, 2, 2, 5}).Draw(t, "cats")
	c.ReadBuf = rapid.SampledFrom([]int{16, 100, 1000, 32768}).Draw(t, "readbuf")
	c.GapUs = rapid.SampledFrom([]int{0, 0, 50, 2000, 30000}).Draw(t, "gap")
	np := rapid.IntRange(0, 3).Draw(t, "npauses")
	for i := 0; i < np; i++ {
		p := hPause{Ms: rapid.SampledFrom([]int{20, 60, 120, 200, 400, 1100}).Draw(t, "ms")}
		if rapid.Bool().Draw(t, "l1") && rapid.Bool().Draw(t, "l2") && rapid.Bool().Draw(t, "l3") && rapid.Bool().Draw(t, "l4") {
			p.Ms = 5600 // longer than the 5 s the server waits for the close acknowledgement
		}
		if rapid.Bool().Draw(t, "near-end") {
			p.AtMsg = -rapid.SampledFrom([]int{0, 1, 2, 50, 99, 100, 101, 150, 200, 201}).Draw(t, "before-end")
		} else {
			p.AtMsg = rapid.IntRange(0, 600).Draw(t, "at")
		}
		c.Pauses = append(c.Pauses, p)
	}
	c.Clean = rapid.IntRange(0, 3).Draw(t, "clean") > 0
	ns := rapid.IntRange(0, 2).Draw(t, "nsched")
	for i := 0; i < ns; i++ {
		p := rapid.SampledFrom([]string{"srv.shutdown.afterflush=sleep:%dms", "srv.shutdown.begin=sleep:%dms", "srv.cmd.finished=sleep:%dms", "srv.cmd.received=sleep:%dms", "read.limiter.acquired=sleep:%dms", "read.limiter.released=sleep:%dms", "srv.read.line=sleepn:%d:40ms"}).Draw(t, "point")
		if strings.Contains(p, "sleepn") {
			p = fmt.Sprintf(p, rapid.SampledFrom([]int{1, 2, 100, 101, 199, 200, 201}).Draw(t, "nth"))
		} else {
			p = fmt.Sprintf(p, rapid.SampledFrom([]int{1, 10, 60, 150}).Draw(t, "ms"))
		}
		c.Sched = append(c.Sched, p)
	}
	return c
}

func evalH(c hCase) lib.Outcome {
	var o lib.Outcome
	id := atomic.AddInt64(&caseN, 1)
	cdir := filepath.Join(root, fmt.Sprintf("h%d-%d", os.Getpid(), id))
	os.MkdirAll(cdir, 0o755)
	defer os.RemoveAll(cdir)
	ec := e2eCase{Grep: c.Grep, Files: c.Files, Shape: c.Shape}
	var paths []string
	for f, spec := range c.Files {
		var b bytes.Buffer
		for n := 1; n <= spec.Lines; n++ {
			b.Write(lineOf(f, spec, n))
			b.WriteByte('\n')
		}
		p := filepath.Join(cdir, fmt.Sprintf("f%02d.log", f))
		os.WriteFile(p, b.Bytes(), 0o644)
		paths = append(paths, p)
	}
	var targets []string
	reps := 1
	switch c.Shape {
	case "glob":
		targets = []string{filepath.Join(cdir, "*.log")}
	case "list":
		targets = paths
	default:
		targets = []string{paths[0], paths[0]}
		reps = 2
	}
	ncmds := len(targets)
	expectedMsgs := 0
	for _, spec := range c.Files {
		expectedMsgs += len(selected(ec, spec)) * reps
	}
	res := runHandlerSession(c, targets, ncmds, expectedMsgs)

	o.Classes = []string{"shape=" + c.Shape, fmt.Sprintf("cats=%d", c.Cats), fmt.Sprintf("readbuf=%d", c.ReadBuf)}
	if ncmds > 1 && c.Clean {
		o.Classes = append(o.Classes, "multi-command-clean-space")
	} else if ncmds > 1 {
		o.Classes = append(o.Classes, "multi-command-free-space")
	}
	if len(c.Files) > c.Cats {
		o.Classes = append(o.Classes, "files>limit")
	}
	if len(c.Pauses) > 0 {
		o.Classes = append(o.Classes, "paced-consumer")
	}
	if len(c.Sched) > 0 {
		o.Classes = append(o.Classes, "hook-delays")
	}
	o.NonTrivial = ncmds >= 2 || len(c.Files) > c.Cats || (len(c.Pauses) > 0 && expectedMsgs > 200)

	known := ""
	if !(c.Clean && ncmds > 1) {
		known = traceInfo{names: res.trace}.earlyShutdown(ncmds)
	}
	fail := func(msg string, exp, obs interface{}) lib.Outcome {
		o.Fail, o.Expected, o.Observed = msg, exp, obs
		o.Trace = map[string]interface{}{"known_signature": known, "messages_before_syn": len(res.msgs), "server_messages": res.serverMsgs, "after_syn": res.afterSyn}
		if known != "" {
			o.KnownKey = "session-ends-before-all-commands-arrived"
		}
		return o
	}
	if res.inconc != "" {
		o.Inconclusive = res.inconc
		return o
	}
	if !res.sawSyn {
		return fail("the session did not offer the close handshake ('.syn close connection') within the deadline after all input was sent", nil, fmt.Sprintf("%d messages received", len(res.msgs)))
	}
	seen := map[int][]int{}
	for i, m := range res.msgs {
		mm := tagRe.FindSubmatch(m)
		if mm == nil {
			return fail(fmt.Sprintf("message %d is neither a line of a requested file nor a server record (fragment?)", i+1), nil, tailS(string(m), 200))
		}
		f, _ := strconv.Atoi(string(mm[1]))
		n, _ := strconv.Atoi(string(mm[2]))
		if f >= len(c.Files) || n < 1 || n > c.Files[f].Lines || !bytes.Equal(m, append(lineOf(f, c.Files[f], n), '\n')) {
			return fail(fmt.Sprintf("message %d is not a complete line of a requested file", i+1), nil, tailS(string(m), 200))
		}
		seen[f] = append(seen[f], n)
	}
	for f, spec := range c.Files {
		want := selected(ec, spec)
		if reps == 1 {
			if msg := sameSeq(want, seen[f]); msg != "" {
				return fail(fmt.Sprintf("file %d (%d lines): %s; %d of %d selected lines arrived before the close handshake (%d more after it)", f, spec.Lines, msg, len(seen[f]), len(want), res.afterSyn), nil, nil)
			}
		} else if msg := twoCopies(want, seen[f]); msg != "" {
			return fail(fmt.Sprintf("file %d requested twice: %s (%d more messages after the close handshake)", f, msg, res.afterSyn), nil, nil)
		}
	}
	if !res.ended {
		return fail("the session did not end within 10 s after the close handshake was acknowledged", nil, nil)
	}
	return o
}

type hResult struct {
	msgs       [][]byte
	serverMsgs []string
	sawSyn     bool
	afterSyn   int
	ended      bool
	trace      []string
	inconc     string
}

func TestC02Handler(t *testing.T) {
	lib.Run(t, lib.Spec[hCase]{Prop: "C02", Check: "handler",
		Rule: "real server handler in-process, the harness writes the commands (one glob / one per file / the same file twice, with a generated gap between commands) and reads the output with 16 B..32 KiB buffers, pausing 20 ms..1.1 s (rarely 5.6 s) before a generated message number or 0..201 messages before the expected end; 1..6 files with line counts around the queue capacities {0,1,2,50,99,100,101,150,199,200,201,202,250,400}; MaxConcurrentCats in {1,2,5}; 0-2 hook-placed delays (shutdown handshake, command accounting, limiter, the n-th line taken from the queue). The harness behaves like the client: it stops taking lines when '.syn close connection' arrives and acknowledges it. Oracle: the lines that arrived before the close handshake are exactly the selected lines per file, once, in order; the handshake is offered and the session ends within 10 s of the acknowledgement. Clean / free schedule space as in the e2e layer. Non-trivial = >=2 commands, more files than limiter slots, or a paced consumer with > 200 selected lines",
		Gen: genH, Eval: evalH})
}

// TestC02Witness re-checks the open known finding on a fixed input ('dcat empty.txt big.txt', the reproducer of the
// design round), so that its KNOWN-FINDING line is printed while it stands and disappears by itself once it is repaired.
func TestC02Witness(t *testing.T) {
	rec := lib.NewRec("C02", "witness", "fixed input: dcat --plain over an empty file and a 5000-line file given as two commands, serverless, fast consumer, up to 12 attempts; re-checks the known finding session-ends-before-all-commands-arrived")
	defer rec.Flush()
	c := e2eCase{Files: []fileSpec{{Lines: 0, LenK: 1}, {Lines: 5000, LenK: 1}}, Shape: "list", Cats: 2, Pace: pace{Kind: "fast", Chunk: 65536}}
	for i := 0; i < 12; i++ {
		o, _ := runE2E(c, false)
		rec.Case(fmt.Sprintf("witness-%d", i), true, "witness-run")
		if o.Fail == "" {
			continue
		}
		if o.KnownKey == "" {
			path := rec.Violation(c, "the witness input fails without the known finding's trace signature: "+o.Fail, o.Expected, o.Observed, o.Trace)
			t.Fatalf("property C02: %s\nreplay=%s", o.Fail, path)
		}
		lib.Witness(t, rec, "C02", "session-ends-before-all-commands-arrived", c, func() lib.Outcome { return o })
		return
	}
	rec.Class("witness-passes:session-ends-before-all-commands-arrived", 1)
}
