package c02

import (
	"bytes"
	"encoding/base64"
	"fmt"
	"strings"
	"time"

	"github.com/mimecast/dtail/internal/regex"
	"github.com/mimecast/dtail/internal/server/handlers"
	userserver "github.com/mimecast/dtail/internal/user/server"
	"github.com/mimecast/dtail/internal/vhook"
)

func envelope(payload string) []byte {
	return []byte("protocol 4.1 base64 " + base64.StdEncoding.EncodeToString([]byte(payload)) + ";")
}

// runHandlerSession plays the client against a real server handler.
func runHandlerSession(c hCase, targets []string, ncmds, expectedMsgs int) (res hResult) {
	user, err := userserver.New("tester", "127.0.0.1:9")
	if err != nil {
		res.inconc = err.Error()
		return
	}
	vhook.Reset(true)
	defer vhook.Reset(false)
	if c.Clean && ncmds > 1 {
		vhook.Set("srv.cmd.finished", fmt.Sprintf("await:srv.cmd.received:%d", ncmds))
	}
	for _, p := range c.Sched {
		kv := strings.SplitN(p, "=", 2)
		if c.Clean && ncmds > 1 && kv[0] == "srv.cmd.finished" {
			continue
		}
		vhook.Set(kv[0], kv[1])
	}
	h := handlers.NewServerHandler(user, make(chan struct{}, c.Cats), make(chan struct{}, 10))
	defer h.Shutdown()

	re := regex.NewNoop()
	word := "cat"
	if c.Grep {
		word = "grep"
		re, _ = regex.New(grepPattern, regex.Default)
	}
	reStr, err := re.Serialize()
	if err != nil {
		res.inconc = err.Error()
		return
	}
	// reader (the client side of the session)
	type readerOut struct {
		msgs       [][]byte
		serverMsgs []string
		sawSyn     bool
		afterSyn   int
	}
	outCh := make(chan readerOut, 1)
	stop := make(chan struct{})
	go func() {
		var ro readerOut
		buf := make([]byte, c.ReadBuf)
		var cur []byte
		paused := make([]bool, len(c.Pauses))
		deadline := time.Now().Add(40 * time.Second)
		for time.Now().Before(deadline) {
			select {
			case <-stop:
				outCh <- ro
				return
			default:
			}
			if !ro.sawSyn {
				for i, p := range c.Pauses {
					at := p.AtMsg
					if at < 0 {
						at = expectedMsgs + p.AtMsg
						if at < 0 {
							at = 0
						}
					}
					if !paused[i] && len(ro.msgs) >= at {
						paused[i] = true
						time.Sleep(time.Duration(p.Ms) * time.Millisecond)
					}
				}
			}
			n, err := h.Read(buf)
			for _, b := range buf[:n] {
				if b != 0xAC {
					cur = append(cur, b)
					continue
				}
				m := cur
				cur = nil
				switch {
				case bytes.HasPrefix(m, []byte(".syn close connection")):
					if !ro.sawSyn {
						ro.sawSyn = true
						// like the client: acknowledge and stop taking lines
						go h.Write(envelope(".ack close connection"))
					}
				case len(m) > 0 && m[0] == '.':
				case bytes.HasPrefix(m, []byte("SERVER|")):
					ro.serverMsgs = append(ro.serverMsgs, string(m))
				case ro.sawSyn:
					ro.afterSyn++
				default:
					ro.msgs = append(ro.msgs, m)
				}
			}
			if err != nil {
				outCh <- ro
				return
			}
		}
		outCh <- ro
	}()
	// commands
	for i, tg := range targets {
		if i > 0 && c.GapUs > 0 {
			time.Sleep(time.Duration(c.GapUs) * time.Microsecond)
		}
		h.Write(envelope(fmt.Sprintf("%s:plain=true %s %s", word, tg, reStr)))
	}
	var ro readerOut
	select {
	case ro = <-outCh:
	case <-time.After(45 * time.Second):
		close(stop)
		ro = <-outCh
	}
	res.msgs, res.serverMsgs, res.sawSyn, res.afterSyn = ro.msgs, ro.serverMsgs, ro.sawSyn, ro.afterSyn
	select {
	case <-h.Done():
		res.ended = true
	case <-time.After(10 * time.Second):
	}
	res.trace = vhook.Trace()
	return
}
