package c17

import (
	"bytes"
	"fmt"
	"net"
	"os"
	"path/filepath"
	"regexp"
	"strings"
	"sync"
	"testing"
	"time"

	"github.com/mimecast/dtail/verif/lib"
	gossh "golang.org/x/crypto/ssh"
	"golang.org/x/crypto/ssh/knownhosts"
	"pgregory.net/rapid"
)

// End-to-end layer: the real dcat binary against real servers, with a prepared known_hosts file and the
// user's answers on stdin. A server whose key is not trusted must not get a session, let alone a command.

const e2eServers = 3

var (
	e2eMu      sync.Mutex
	e2ePool    []*lib.Server
	e2eUserKey lib.KeyPair
	e2eRoot    string
)

func e2eServersUp() ([]*lib.Server, error) {
	e2eMu.Lock()
	defer e2eMu.Unlock()
	if len(e2ePool) == e2eServers {
		ok := true
		for _, s := range e2ePool {
			ok = ok && s.Alive()
		}
		if ok {
			return e2ePool, nil
		}
		for _, s := range e2ePool {
			s.Stop()
		}
		e2ePool = nil
	}
	if e2eRoot == "" {
		e2eRoot, _ = filepath.EvalSymlinks(root)
		e2eUserKey = lib.NewKeyPair("tester")
	}
	for k := 0; k < e2eServers; k++ {
		d := filepath.Join(e2eRoot, "data", fmt.Sprintf("srv%d", k))
		os.MkdirAll(d, 0o755)
		os.WriteFile(filepath.Join(d, "f.log"), []byte(fmt.Sprintf("CONTENT-OF-SERVER-%d first line\nCONTENT-OF-SERVER-%d second line\n", k, k)), 0o644)
		perm := &lib.Permissions{Default: []string{"^" + regexp.QuoteMeta(e2eRoot) + "/data/srv" + fmt.Sprint(k) + "/.*"}}
		s, err := lib.StartServer(lib.ServerOpts{Dir: filepath.Join(e2eRoot, fmt.Sprintf("server%d", k)), Label: fmt.Sprintf("host%d", k),
			Cfg: lib.ServerCfg{Permissions: perm}, Users: map[string][]string{"tester": {e2eUserKey.Authorized}}})
		if err != nil {
			return nil, err
		}
		e2ePool = append(e2ePool, s)
	}
	return e2ePool, nil
}

type e2eHost struct {
	Server int
	Status string // known | unknown | changed
}

type e2eCase struct {
	Hosts    []e2eHost
	TrustAll bool
	Answer   string // what the user types at the prompt(s), newline separated
}

func genE2E(t *rapid.T) e2eCase {
	var c e2eCase
	n := rapid.IntRange(1, e2eServers).Draw(t, "nhosts")
	for _, k := range rapid.Permutation([]int{0, 1, 2}).Draw(t, "which")[:n] {
		c.Hosts = append(c.Hosts, e2eHost{Server: k, Status: rapid.SampledFrom([]string{"known", "unknown", "unknown", "changed"}).Draw(t, "status")})
	}
	c.TrustAll = rapid.IntRange(0, 4).Draw(t, "trustall") == 0
	c.Answer = rapid.SampledFrom([]string{"y", "n", "n", "a", "yes", "no", "d\ny", "d\nn", "x\nn", "x\ny", "", "\nn", "\ny"}).Draw(t, "answer")
	return c
}

// finalAnswer models the prompt: unknown input and "d" ask again; an empty line is not an answer.
func finalAnswer(a string) string {
	for _, l := range strings.Split(a, "\n") {
		switch l {
		case "y", "yes", "a", "all":
			return "trust"
		case "n", "no":
			return "refuse"
		}
	}
	return "none" // stdin ends without an answer
}

func evalE2E(c e2eCase) lib.Outcome {
	var o lib.Outcome
	srvs, err := e2eServersUp()
	if err != nil {
		return lib.Outcome{Inconclusive: "servers: " + err.Error()}
	}
	id := fmt.Sprintf("%d-%d", os.Getpid(), time.Now().UnixNano())
	home := filepath.Join(e2eRoot, "home-"+id)
	os.MkdirAll(filepath.Join(home, ".ssh"), 0o700)
	defer os.RemoveAll(home)
	keyPath := filepath.Join(home, ".ssh", "id_test")
	os.WriteFile(keyPath, e2eUserKey.PrivatePEM, 0o600)
	other := lib.NewKeyPair("other")
	var kh strings.Builder
	kh.WriteString("# prepared by the harness\nunrelated.example.org " + strings.TrimSpace(string(gossh.MarshalAuthorizedKey(other.Signer.PublicKey()))) + "\n")
	var addrs []string
	needPrompt := false
	for _, h := range c.Hosts {
		s := srvs[h.Server]
		addrs = append(addrs, s.Addr())
		switch h.Status {
		case "known":
			kh.WriteString(s.KnownHostsLine() + "\n")
		case "changed":
			kh.WriteString(knownhosts.Line([]string{s.Addr()}, other.Signer.PublicKey()) + "\n")
			needPrompt = true
		default:
			needPrompt = true
		}
	}
	khPath := filepath.Join(home, ".ssh", "known_hosts")
	os.WriteFile(khPath, []byte(kh.String()), 0o600)
	before := kh.String()
	logOff := make([]int, len(srvs))
	for i, s := range srvs {
		logOff[i] = len(s.Log())
	}
	args := []string{"--plain", "--servers", strings.Join(addrs, ","), "--user", "tester", "--key", keyPath, "--files", filepath.Join(e2eRoot, "data", "*", "f.log")}
	if c.TrustAll {
		args = append(args, "--trustAllHosts")
	}
	// Without trust-all an unknown host leads to the interactive prompt. In the shipped client the prompt first pauses
	// the logger, which only returns once some other message is logged; in a session with nothing else to print the
	// client therefore sits there for good (observed on the unchanged tree; not part of C17, which is a safety
	// statement). Such a run is ended after 10 s and judged on what reached the servers until then.
	timeout := 60 * time.Second
	if needPrompt && !c.TrustAll {
		timeout = 10 * time.Second
	}
	r := lib.RunClient("dcat", args, lib.RunOpts{Home: home, Timeout: timeout, Stdin: strings.NewReader(c.Answer + "\n")})
	ans := finalAnswer(c.Answer)
	o.Classes = []string{"answer=" + ans}
	if c.TrustAll {
		o.Classes = append(o.Classes, "trust-all-flag")
	}
	if needPrompt {
		o.Classes = append(o.Classes, "unknown-or-changed-host")
	}
	o.NonTrivial = needPrompt && len(c.Hosts) >= 2
	if r.TimedOut {
		if needPrompt && !c.TrustAll {
			o.Classes = append(o.Classes, "client-waits-at-the-prompt")
		} else {
			o.Fail = "dcat did not end within 60 s although no prompt was due"
			return o
		}
	}
	time.Sleep(30 * time.Millisecond)
	promptTookEffect := false
	for _, h := range c.Hosts {
		s := srvs[h.Server]
		marker := []byte(fmt.Sprintf("CONTENT-OF-SERVER-%d second line", h.Server))
		got := bytes.Contains(r.Stdout, marker)
		logDelta := s.Log()[logOff[h.Server]:]
		sawCommand := bytes.Contains(logDelta, []byte("f.log")) || bytes.Contains(logDelta, []byte("Start reading"))
		mustServe := h.Status == "known" || c.TrustAll
		mayServe := mustServe || ans == "trust"
		switch {
		case !mayServe && (got || sawCommand):
			o.Fail = fmt.Sprintf("server %d (%s, status %s) is not trusted (answer %q, trust-all=%v) but a command reached it (content delivered=%v, server log shows the command=%v)", h.Server, s.Addr(), h.Status, c.Answer, c.TrustAll, got, sawCommand)
			o.Observed = string(tailB(logDelta, 600))
			return o
		case mustServe && !got:
			o.Fail = fmt.Sprintf("server %d (%s, status %s) is trusted (known key or trust-all=%v) but its file was not delivered (exit=%d, timed out=%v)", h.Server, s.Addr(), h.Status, c.TrustAll, r.Exit, r.TimedOut)
			o.Observed = string(tailB(r.Stdout, 600)) + "\n--- stderr\n" + string(tailB(r.Stderr, 300))
			return o
		}
		if !mustServe && got {
			promptTookEffect = true
			o.Classes = append(o.Classes, "approved-at-the-prompt")
		}
	}
	after, _ := os.ReadFile(khPath)
	trustedNew := needPrompt && (c.TrustAll || promptTookEffect)
	if !trustedNew {
		if string(after) != before && ans != "trust" {
			o.Fail = "nothing was trusted but the known_hosts file was changed"
			o.Expected, o.Observed = before, string(after)
		}
		return o
	}
	cb, err := knownhosts.New(khPath)
	if err != nil {
		o.Fail = "the rewritten known_hosts file does not parse: " + err.Error()
		return o
	}
	for _, h := range c.Hosts {
		s := srvs[h.Server]
		tcp, _ := net.ResolveTCPAddr("tcp", s.Addr())
		if err := cb(s.Addr(), tcp, s.HostKey.Signer.PublicKey()); err != nil {
			o.Fail = fmt.Sprintf("after trusting, server %d's key is not accepted from the known_hosts file: %v", h.Server, err)
			o.Observed = string(after)
			return o
		}
	}
	if !strings.Contains(string(after), "unrelated.example.org ") || !strings.Contains(string(after), "# prepared by the harness") {
		o.Fail = "an unrelated entry was lost from the known_hosts file"
		o.Expected, o.Observed = before, string(after)
	}
	return o
}

func tailB(b []byte, n int) []byte {
	if len(b) > n {
		return b[len(b)-n:]
	}
	return b
}

func TestC17E2E(t *testing.T) {
	lib.Run(t, lib.Spec[e2eCase]{Prop: "C17", Check: "e2e",
		Rule: "real dcat binary against 1..3 real servers (each may only serve its own file); per server the prepared known_hosts has its key / no entry / another key; --trustAllHosts or the user's answer on stdin (y, n, a, yes, no, details or junk first, empty line, none); oracle: a server that is not trusted (not known, no trust-all, no 'yes') delivers nothing and its log shows no command; a server with a known key or under trust-all delivers its file; once new hosts were trusted the file parses, accepts every contacted server and still holds the unrelated lines; otherwise it is byte-identical. (A client that sits at the prompt is ended after 10 s and judged on what reached the servers.) Non-trivial = >=2 servers with at least one unknown or changed",
		Gen: genE2E, Eval: evalE2E})
}
