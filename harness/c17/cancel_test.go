package c17

import (
	"context"
	"fmt"
	"os"
	"path/filepath"
	"sync"
	"sync/atomic"
	"testing"
	"time"

	sshclient "github.com/mimecast/dtail/internal/ssh/client"
	"github.com/mimecast/dtail/verif/lib"
	"pgregory.net/rapid"
)

// The client ends (its context is cancelled: timeout, interrupt, all other connections done) while unknown hosts
// are still waiting for the prompt: none of them may be let through by that.

type cancelCase struct {
	Hosts     int // unknown hosts contacted
	Known     int // hosts that are in the file (these may pass)
	CancelMs  int // the context is cancelled this long after the contacts started
	Staggered bool
}

func genCancel(t *rapid.T) cancelCase {
	return cancelCase{Hosts: rapid.IntRange(1, 5).Draw(t, "hosts"), Known: rapid.IntRange(0, 2).Draw(t, "known"),
		CancelMs: rapid.SampledFrom([]int{0, 5, 100, 700, 1500, 1950}).Draw(t, "cancel-ms"), Staggered: rapid.Bool().Draw(t, "staggered")}
}

func evalCancel(c cancelCase) lib.Outcome {
	var o lib.Outcome
	id := atomic.AddInt64(&caseN, 1)
	path := filepath.Join(root, fmt.Sprintf("known_hosts-cancel-%d", id%64))
	kc := khCase{FinalNL: true}
	for i := 0; i < c.Known; i++ {
		kc.Lines = append(kc.Lines, fileLine{Kind: "plain", Host: i, Key: 0})
	}
	before := kc.text()
	os.WriteFile(path, []byte(before), 0o600)
	defer os.Remove(path)
	stdioMu.Lock()
	defer stdioMu.Unlock()
	// nobody answers: stdin is a pipe that stays silent, stdout is discarded
	inR, inW, _ := os.Pipe()
	devnull, _ := os.OpenFile(os.DevNull, os.O_WRONLY, 0)
	oldIn, oldOut := os.Stdin, os.Stdout
	os.Stdin, os.Stdout = inR, devnull
	defer func() {
		os.Stdin, os.Stdout = oldIn, oldOut
		inW.Close()
		inR.Close()
		devnull.Close()
	}()
	n := c.Hosts + c.Known
	throttle := make(chan struct{}, n+1)
	for i := 0; i < n; i++ {
		throttle <- struct{}{}
	}
	cb, err := sshclient.NewKnownHostsCallback(path, false, throttle)
	if err != nil {
		return lib.Outcome{Inconclusive: err.Error()}
	}
	ctx, cancel := context.WithCancel(context.Background())
	go cb.PromptAddHosts(ctx)
	wrap := cb.Wrap()
	type res struct {
		done bool
		err  error
	}
	results := make([]res, n)
	var mu sync.Mutex
	for i := 0; i < n; i++ {
		go func(i int) {
			if c.Staggered {
				time.Sleep(time.Duration(i*40) * time.Millisecond)
			}
			host, key := i, 0
			if i >= c.Known {
				host, key = 100+i, 1 // not in the file
			}
			err := wrap(hostPort(host), hostIP(host), keys[key])
			mu.Lock()
			results[i] = res{true, err}
			mu.Unlock()
		}(i)
	}
	time.Sleep(time.Duration(c.CancelMs) * time.Millisecond)
	cancel()
	time.Sleep(400 * time.Millisecond)
	mu.Lock()
	defer mu.Unlock()
	o.Classes = []string{fmt.Sprintf("cancel-after=%dms", c.CancelMs)}
	o.NonTrivial = true
	for i := c.Known; i < n; i++ {
		if results[i].done && results[i].err == nil {
			o.Fail = fmt.Sprintf("unknown host %s was let through although nobody approved it: the client's context ended %d ms after the contact, before the prompt", hostPort(100+i), c.CancelMs)
			return o
		}
	}
	for i := 0; i < c.Known; i++ {
		if results[i].done && results[i].err != nil {
			o.Fail = fmt.Sprintf("known host %s was refused: %v", hostPort(i), results[i].err)
			return o
		}
	}
	if after, _ := os.ReadFile(path); string(after) != before {
		o.Fail = "nobody was trusted but the known_hosts file changed"
		o.Expected, o.Observed = before, string(after)
	}
	return o
}

func TestC17Cancel(t *testing.T) {
	lib.Run(t, lib.Spec[cancelCase]{Prop: "C17", Check: "cancel",
		Rule: "1..5 unknown and 0..2 known hosts are contacted through the real callback while the prompt loop runs and nobody answers; the client's context is cancelled 0..1950 ms later (inside the 2 s window in which unknown hosts are collected before the prompt); oracle: no unknown host's callback returns nil, known hosts pass, the file is unchanged",
		Gen: genCancel, Eval: evalCancel})
}
