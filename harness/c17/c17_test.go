package c17

import (
	"bytes"
	"context"
	"fmt"
	"io"
	"net"
	"os"
	"path/filepath"
	"regexp"
	"strings"
	"sync"
	"sync/atomic"
	"testing"
	"time"

	sshclient "github.com/mimecast/dtail/internal/ssh/client"
	"github.com/mimecast/dtail/verif/lib"
	gossh "golang.org/x/crypto/ssh"
	"golang.org/x/crypto/ssh/knownhosts"
	"pgregory.net/rapid"
)

var (
	root  string
	keys  []gossh.PublicKey
	caseN int64
)

func TestMain(m *testing.M) {
	lib.Main(m, func() {
		lib.InitDtailClient()
		cwd, _ := os.Getwd()
		root, _ = os.MkdirTemp(cwd, "c17-")
		for i := 0; i < 6; i++ {
			keys = append(keys, lib.NewKeyPair(fmt.Sprintf("k%d", i)).Signer.PublicKey())
		}
	})
}

// ---- case ---------------------------------------------------------------------------------------

type fileLine struct {
	Kind string // plain | bracket | hashed | multi | ca | revoked-other | comment | blank | long
	Host int    // index of a host name
	Key  int
}

type contact struct {
	Host   int
	Key    int
	Status string // known | unknown | changed
}

type khCase struct {
	Lines    []fileLine
	CRLF     bool
	FinalNL  bool
	Contacts []contact
	Answers  []string // one list entry per prompt: "y", "n", "a", "d,y", "x,n" ...
	TrustAll bool
	// Recontact: hosts the user refused are contacted a second time through the same callback (what a retrying
	// client does) and refused again at the prompt; they must be refused again
	Recontact bool
}

func hostName(i int) string { return fmt.Sprintf("host%d.example.org", i) }
func hostPort(i int) string { return fmt.Sprintf("%s:2222", hostName(i)) }
func hostIP(i int) net.Addr {
	return &net.TCPAddr{IP: net.IPv4(10, 0, byte(i/250), byte(1+i%250)), Port: 2222}
}

func (c khCase) text() string {
	nl := "\n"
	if c.CRLF {
		nl = "\r\n"
	}
	var out []string
	for _, l := range c.Lines {
		k := strings.TrimSpace(string(gossh.MarshalAuthorizedKey(keys[l.Key])))
		switch l.Kind {
		case "plain": // by name and by address, the way dtail writes them
			out = append(out, knownhosts.Line([]string{hostPort(l.Host)}, keys[l.Key]), knownhosts.Line([]string{hostIP(l.Host).String()}, keys[l.Key]))
		case "bracket":
			out = append(out, fmt.Sprintf("[%s]:2222 %s", hostName(l.Host), k))
		case "hashed":
			out = append(out, knownhosts.HashHostname(knownhosts.Normalize(hostPort(l.Host)))+" "+k)
		case "multi":
			out = append(out, fmt.Sprintf("[%s]:2222,[other%d.example.org]:2222 %s", hostName(l.Host), l.Host, k))
		case "ca":
			out = append(out, "@cert-authority *.ca.example.org "+k)
		case "revoked-other":
			out = append(out, "@revoked * "+strings.TrimSpace(string(gossh.MarshalAuthorizedKey(keys[len(keys)-1]))))
		case "comment":
			out = append(out, "# a comment "+hostName(l.Host))
		case "blank":
			out = append(out, "")
		case "long":
			out = append(out, "# "+strings.Repeat("x", 60000))
		}
	}
	s := strings.Join(out, nl)
	if c.FinalNL && len(out) > 0 {
		s += nl
	}
	return s
}

func genCase(t *rapid.T) khCase {
	var c khCase
	// hosts 0..9 may appear in the file; contacts use hosts 0..(big)
	nl := rapid.IntRange(0, 8).Draw(t, "nlines")
	inFile := map[int]int{} // host -> key in file (plain/bracket/hashed kinds)
	for i := 0; i < nl; i++ {
		l := fileLine{Kind: rapid.SampledFrom([]string{"plain", "plain", "bracket", "hashed", "multi", "ca", "revoked-other", "comment", "blank", "long"}).Draw(t, "lkind"),
			Host: rapid.IntRange(0, 9).Draw(t, "lhost"), Key: rapid.IntRange(0, 3).Draw(t, "lkey")}
		if l.Kind == "long" && rapid.IntRange(0, 3).Draw(t, "longrare") != 0 {
			l.Kind = "comment"
		}
		switch l.Kind {
		case "plain", "bracket", "hashed", "multi":
			if _, dup := inFile[l.Host]; dup {
				l.Kind = "comment" // one key per host in the file keeps 'known' unambiguous
			} else {
				inFile[l.Host] = l.Key
			}
		}
		c.Lines = append(c.Lines, l)
	}
	c.CRLF = false
	c.FinalNL = rapid.IntRange(0, 4).Draw(t, "finalnl") != 0
	c.TrustAll = rapid.IntRange(0, 9).Draw(t, "trustall") == 0
	c.Recontact = rapid.IntRange(0, 2).Draw(t, "recontact") == 0
	// contacts
	big := rapid.IntRange(0, 9).Draw(t, "big")
	switch {
	case big < 5: // immediate path: exactly 50 unknown hosts
		for i := 0; i < 50; i++ {
			c.Contacts = append(c.Contacts, contact{Host: 100 + i, Key: rapid.IntRange(0, 3).Draw(t, "ckey"), Status: "unknown"})
		}
	case big < 6: // 50 + a few more: two prompts
		for i := 0; i < 50+rapid.IntRange(1, 3).Draw(t, "extra"); i++ {
			c.Contacts = append(c.Contacts, contact{Host: 100 + i, Key: rapid.IntRange(0, 3).Draw(t, "ckey"), Status: "unknown"})
		}
	default: // timer path: 1..3 unknown / changed hosts
		n := rapid.IntRange(1, 3).Draw(t, "nsmall")
		for i := 0; i < n; i++ {
			c.Contacts = append(c.Contacts, contact{Host: 100 + i, Key: rapid.IntRange(0, 3).Draw(t, "ckey"), Status: "unknown"})
		}
	}
	// contacts to hosts that are in the file: with the right key (known) or another one (changed)
	for h, k := range inFile {
		switch rapid.IntRange(0, 3).Draw(t, "fc") {
		case 0:
			c.Contacts = append(c.Contacts, contact{Host: h, Key: k, Status: "known"})
		case 1:
			c.Contacts = append(c.Contacts, contact{Host: h, Key: (k + 1) % 4, Status: "changed"})
		}
	}
	np := rapid.IntRange(2, 3).Draw(t, "nanswers")
	for i := 0; i < np; i++ {
		c.Answers = append(c.Answers, rapid.SampledFrom([]string{"y", "y", "yes", "n", "no", "a", "all", "d,y", "d,n", "x,y", ",n", "Y,n"}).Draw(t, "answer"))
	}
	return c
}

var promptRe = regexp.MustCompile(`Encountered (\d+) unknown hosts: '([^']*)'`)

var stdioMu sync.Mutex

func evalCase(c khCase) lib.Outcome {
	var o lib.Outcome
	id := atomic.AddInt64(&caseN, 1)
	path := filepath.Join(root, fmt.Sprintf("known_hosts-%d", id%64))
	before := c.text()
	os.WriteFile(path, []byte(before), 0o600)
	os.Remove(path + ".tmp")
	defer os.Remove(path)

	kinds := map[string]bool{}
	for _, l := range c.Lines {
		kinds[l.Kind] = true
	}
	nUnknown, nKnown, nChanged := 0, 0, 0
	for _, ct := range c.Contacts {
		switch ct.Status {
		case "known":
			nKnown++
		case "changed":
			nChanged++
		default:
			nUnknown++
		}
	}
	o.Classes = []string{fmt.Sprintf("unknown=%d", bucket(nUnknown))}
	if nChanged > 0 {
		o.Classes = append(o.Classes, "changed-key")
	}
	if nKnown > 0 {
		o.Classes = append(o.Classes, "known-host")
	}
	if c.TrustAll {
		o.Classes = append(o.Classes, "trust-all")
	}
	for k := range kinds {
		o.Classes = append(o.Classes, "file:"+k)
	}
	o.NonTrivial = len(c.Lines) >= 3 && len(kinds) >= 2 && nUnknown+nChanged >= 1

	stdioMu.Lock()
	defer stdioMu.Unlock()
	throttle := make(chan struct{}, len(c.Contacts)+1)
	for range c.Contacts {
		throttle <- struct{}{}
	}
	cb, err := sshclient.NewKnownHostsCallback(path, c.TrustAll, throttle)
	if err != nil {
		return lib.Outcome{Inconclusive: err.Error()}
	}
	// swap stdin / stdout for pipes
	inR, inW, _ := os.Pipe()
	outR, outW, _ := os.Pipe()
	oldIn, oldOut := os.Stdin, os.Stdout
	os.Stdin, os.Stdout = inR, outW
	restore := func() {
		os.Stdin, os.Stdout = oldIn, oldOut
	}
	var outBuf bytes.Buffer
	var outMu sync.Mutex
	outDone := make(chan struct{})
	go func() {
		buf := make([]byte, 65536)
		for {
			n, err := outR.Read(buf)
			if n > 0 {
				outMu.Lock()
				outBuf.Write(buf[:n])
				outMu.Unlock()
			}
			if err != nil {
				close(outDone)
				return
			}
		}
	}()
	ctx, cancel := context.WithCancel(context.Background())
	go cb.PromptAddHosts(ctx)
	wrap := cb.Wrap()
	errs := make([]error, len(c.Contacts))
	var wg sync.WaitGroup
	for i, ct := range c.Contacts {
		wg.Add(1)
		go func(i int, ct contact) {
			defer wg.Done()
			errs[i] = wrap(hostPort(ct.Host), hostIP(ct.Host), keys[ct.Key])
		}(i, ct)
	}
	allDone := make(chan struct{})
	go func() { wg.Wait(); close(allDone) }()

	// answer the prompts
	type batch struct {
		hosts  []string
		answer string // final effective answer: y | n | a | auto
	}
	var batches []batch
	consumed := 0
	prompts := 0
	trustAllNow := c.TrustAll
	deadline := time.After(30 * time.Second)
	timedOut := false
loop:
	for {
		select {
		case <-allDone:
			break loop
		case <-deadline:
			timedOut = true
			break loop
		case <-time.After(3 * time.Millisecond):
		}
		outMu.Lock()
		s := outBuf.String()[consumed:]
		outMu.Unlock()
		idx := strings.Index(s, "): ")
		if idx < 0 {
			continue
		}
		m := promptRe.FindStringSubmatch(s[:idx])
		consumed += idx + 3
		if m == nil {
			continue // re-asked prompt after 'details' or junk: handled below by the queued answers
		}
		ans := "n"
		if prompts < len(c.Answers) {
			ans = c.Answers[prompts]
		}
		prompts++
		parts := strings.Split(ans, ",")
		final := parts[len(parts)-1]
		for pi, p := range parts {
			inW.Write([]byte(p + "\n"))
			if pi < len(parts)-1 {
				// wait for the prompt to be shown again
				t0 := time.Now()
				for time.Since(t0) < 5*time.Second {
					outMu.Lock()
					s2 := outBuf.String()[consumed:]
					outMu.Unlock()
					if j := strings.Index(s2, "): "); j >= 0 {
						consumed += j + 3
						break
					}
					time.Sleep(2 * time.Millisecond)
				}
			}
		}
		eff := "n"
		switch final {
		case "y", "yes":
			eff = "y"
		case "a", "all":
			eff = "a"
			trustAllNow = true
		}
		batches = append(batches, batch{hosts: strings.Split(m[2], ","), answer: eff})
	}
	// a retrying client contacts a refused host again through the same callback object
	if c.Recontact && !timedOut && !trustAllNow && !c.TrustAll {
		var again []int
		for i, ct := range c.Contacts {
			if errs[i] != nil && ct.Status != "known" {
				again = append(again, i)
			}
		}
		if len(again) > 0 {
			errs2 := make([]error, len(c.Contacts))
			var wg2 sync.WaitGroup
			for _, i := range again {
				wg2.Add(1)
				go func(i int) {
					defer wg2.Done()
					ct := c.Contacts[i]
					errs2[i] = wrap(hostPort(ct.Host), hostIP(ct.Host), keys[ct.Key])
				}(i)
			}
			done2 := make(chan struct{})
			go func() { wg2.Wait(); close(done2) }()
			deadline2 := time.After(20 * time.Second)
		loop2:
			for {
				select {
				case <-done2:
					break loop2
				case <-deadline2:
					timedOut = true
					break loop2
				case <-time.After(3 * time.Millisecond):
				}
				outMu.Lock()
				s := outBuf.String()[consumed:]
				outMu.Unlock()
				if idx := strings.Index(s, "): "); idx >= 0 {
					consumed += idx + 3
					inW.Write([]byte("n\n"))
				}
			}
			o.Classes = append(o.Classes, "refused-host-contacted-again")
			if !timedOut {
				for _, i := range again {
					if errs2[i] == nil {
						cancel()
						restore()
						o.Fail = fmt.Sprintf("host %s was refused by the user, then contacted again through the same callback and let through (the second prompt was answered 'n' as well, or never shown)", hostPort(c.Contacts[i].Host))
						outMu.Lock()
						o.Observed = outBuf.String()
						outMu.Unlock()
						return o
					}
				}
			}
		}
	}
	// the callbacks are released before the file is rewritten: give the rewrite time to finish
	for t0 := time.Now(); time.Since(t0) < 5*time.Second; time.Sleep(2 * time.Millisecond) {
		if _, err := os.Stat(path + ".tmp"); err != nil {
			time.Sleep(5 * time.Millisecond)
			if _, err := os.Stat(path + ".tmp"); err != nil {
				break
			}
		}
	}
	cancel()
	restore()
	outW.Close()
	inW.Close()
	<-outDone
	outR.Close()
	inR.Close()
	if timedOut {
		o.Fail = fmt.Sprintf("host key callbacks did not all return within 30 s (%d prompts answered)", prompts)
		o.Observed = outBuf.String()
		return o
	}
	_ = trustAllNow

	// ---- oracle 1: who was let through
	answered := map[string]string{}
	for _, b := range batches {
		for _, h := range b.hosts {
			answered[h] = b.answer
		}
	}
	trusted := map[int]bool{}
	sawAll := false
	for i, ct := range c.Contacts {
		want := false
		switch {
		case ct.Status == "known":
			want = true
		case c.TrustAll:
			want = true
			trusted[ct.Host] = true
		default:
			a, prompted := answered[hostPort(ct.Host)]
			if prompted {
				want = a == "y" || a == "a"
			} else {
				// not part of any prompt: only legal after an earlier "all"
				want = true
				for _, b := range batches {
					if b.answer == "a" {
						sawAll = true
					}
				}
				if !sawAll {
					o.Fail = fmt.Sprintf("host %s (%s) was never shown in a prompt although nobody answered 'all' and trust-all was not requested; callback returned %v", hostPort(ct.Host), ct.Status, errs[i])
					o.Observed = outBuf.String()
					return o
				}
			}
			if want {
				trusted[ct.Host] = true
			}
		}
		got := errs[i] == nil
		if got != want {
			o.Fail = fmt.Sprintf("host %s (%s): callback let it through=%v, want %v (answer %q, trust-all=%v, err=%v)", hostPort(ct.Host), ct.Status, got, want, answered[hostPort(ct.Host)], c.TrustAll, errs[i])
			o.Observed = outBuf.String()
			return o
		}
		if cbu := cb.Untrusted(hostPort(ct.Host)); cbu != (!want) && ct.Status != "known" {
			o.Fail = fmt.Sprintf("host %s: Untrusted()=%v although it was let through=%v", hostPort(ct.Host), cbu, want)
			return o
		}
	}
	if len(batches) > 0 {
		o.Classes = append(o.Classes, fmt.Sprintf("prompts=%d", len(batches)))
	}
	// ---- oracle 2: the file
	afterB, _ := os.ReadFile(path)
	after := string(afterB)
	if len(trusted) == 0 {
		if after != before {
			o.Fail = "nobody was trusted but the known_hosts file changed"
			o.Expected, o.Observed = clipS(before), clipS(after)
		}
		return o
	}
	if _, err := os.Stat(path + ".tmp"); err == nil {
		o.Fail = "a known_hosts.tmp file was left behind"
		return o
	}
	khcb, err := knownhosts.New(path)
	if err != nil {
		o.Fail = "the rewritten known_hosts file does not parse: " + err.Error()
		o.Observed = clipS(after)
		return o
	}
	related := map[string]bool{}
	for _, ct := range c.Contacts {
		if trusted[ct.Host] {
			if err := khcb(hostPort(ct.Host), hostIP(ct.Host), keys[ct.Key]); err != nil {
				o.Fail = fmt.Sprintf("after trusting %s its key is still not accepted from the file: %v", hostPort(ct.Host), err)
				o.Observed = clipS(after)
				return o
			}
			related[knownhosts.Normalize(hostPort(ct.Host))] = true
			related[knownhosts.Normalize(hostIP(ct.Host).String())] = true
		}
	}
	oldLines := splitLines(before)
	newLines := splitLines(after)
	// every unrelated old line must survive, unchanged and in the same relative order
	var unrelated []string
	for _, l := range oldLines {
		if !related[strings.SplitN(l, " ", 2)[0]] {
			unrelated = append(unrelated, l)
		}
	}
	j := 0
	for _, l := range newLines {
		if j < len(unrelated) && l == unrelated[j] {
			j++
		}
	}
	if j != len(unrelated) {
		o.Fail = fmt.Sprintf("an unrelated known_hosts entry was lost or altered: %q", clipS(unrelated[j]))
		o.Expected, o.Observed = clipS(before), clipS(after)
		return o
	}
	// nothing but old lines and two new lines per trusted host
	added := len(newLines) - j
	maxAdded := 2*len(trusted) + (len(oldLines) - len(unrelated))
	if added < 2*len(trusted) || added > maxAdded {
		o.Fail = fmt.Sprintf("%d hosts trusted: %d lines besides the %d unrelated old ones, want between %d and %d", len(trusted), added, j, 2*len(trusted), maxAdded)
		o.Expected, o.Observed = clipS(before), clipS(after)
	}
	return o
}

func splitLines(s string) []string {
	if s == "" {
		return nil
	}
	s = strings.TrimSuffix(s, "\n")
	return strings.Split(s, "\n")
}

func clipS(s string) string {
	if len(s) > 1500 {
		return s[:700] + "\n...\n" + s[len(s)-700:]
	}
	return s
}

func bucket(n int) int {
	for _, b := range []int{0, 1, 3, 50} {
		if n <= b {
			return b
		}
	}
	return 53
}

var _ = io.EOF

func TestC17Callback(t *testing.T) {
	lib.Run(t, lib.Spec[khCase]{Prop: "C17", Check: "callback",
		Rule: "known_hosts text of 0..8 entries (name+address pairs as dtail writes them, [host]:port, hashed, multi-host, @cert-authority, @revoked for an unrelated key, comments, blank lines, a 60 KB line; with/without final newline) x contacted hosts (known with matching key, known with changed key, 1..3 or 50 or 51..53 unknown ones; host key callbacks invoked concurrently) x answers per prompt (y/yes, n/no, a/all, 'details' then y/n, junk then y/n) x trust-all; stdin/stdout of the prompt are pipes owned by the harness; oracle: callback lets a host through <=> key matched the file or the user answered yes/all for the prompt listing it or trust-all; after 'no' the file is byte-identical; after trusting, the file parses, accepts every trusted host by name and by address, keeps every unrelated old line unchanged and in order, and gained two lines per trusted host; non-trivial = file with >=3 entries of >=2 kinds and >=1 unknown or changed host; distinct by case",
		Gen:  genCase, Eval: evalCase,
		SampleOf: func(c khCase) interface{} {
			return map[string]interface{}{"file": clipS(c.text()), "contacts": len(c.Contacts), "answers": c.Answers, "trustAll": c.TrustAll}
		}})
}
