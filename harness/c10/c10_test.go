package c10

import (
	"bytes"
	"encoding/base64"
	"encoding/json"
	"fmt"
	"os"
	"path/filepath"
	"runtime"
	"strings"
	"sync"
	"testing"
	"time"

	"github.com/mimecast/dtail/internal/server/handlers"
	userserver "github.com/mimecast/dtail/internal/user/server"
	"github.com/mimecast/dtail/verif/gen"
	"github.com/mimecast/dtail/verif/lib"
	"pgregory.net/rapid"
)

var root string

func TestMain(m *testing.M) {
	if os.Getenv("C10_WORKER") == "1" {
		lib.InitDtailServer()
		workerMain()
		return
	}
	lib.Main(m, func() {
		lib.InitDtailServer()
		cwd, _ := os.Getwd()
		root, _ = os.MkdirTemp(cwd, "c10-")
		os.WriteFile(filepath.Join(root, "small.log"), []byte("alpha\nbeta\ngamma\n"), 0o644)
		os.WriteFile(filepath.Join(root, "mapr.log"), []byte("INFO|1002-071143|1|stats.go:56|8|13|7|0.21|471h0m21s|MAPREDUCE:STATS|k=a|v=1\n"), 0o644)
	})
}

// ---- worker side ----------------------------------------------------------------------------------

type request struct {
	ID       int
	Kind     string // server | health | bystander | ping
	Chunks   [][]byte
	SettleMs int
	File     string
}

type response struct {
	ID         int
	Panic      string
	Output     []byte
	Goroutines int
}

var (
	catLimiter  = make(chan struct{}, 8)
	tailLimiter = make(chan struct{}, 8)
)

func runSession(req request) (resp response) {
	resp.ID = req.ID
	u, err := userserver.New("tester", "127.0.0.1:9")
	if err != nil {
		resp.Panic = "user.New: " + err.Error()
		return
	}
	var h handlers.Handler
	if req.Kind == "health" {
		h = handlers.NewHealthHandler(u)
	} else {
		h = handlers.NewServerHandler(u, catLimiter, tailLimiter)
	}
	var out bytes.Buffer
	var outMu sync.Mutex
	readDone := make(chan struct{})
	go func() {
		defer close(readDone)
		defer func() {
			if r := recover(); r != nil {
				outMu.Lock()
				resp.Panic = fmt.Sprintf("panic in Read: %v", r)
				outMu.Unlock()
			}
		}()
		buf := make([]byte, 32*1024)
		for {
			n, err := h.Read(buf)
			if n > 0 {
				outMu.Lock()
				if out.Len() < 1<<16 {
					out.Write(buf[:n])
				}
				outMu.Unlock()
			}
			if err != nil {
				return
			}
			select {
			case <-h.Done():
				return
			default:
			}
		}
	}()
	writeDone := make(chan struct{})
	go func() {
		defer close(writeDone)
		defer func() {
			if r := recover(); r != nil {
				outMu.Lock()
				resp.Panic = fmt.Sprintf("panic in Write: %v", r)
				outMu.Unlock()
			}
		}()
		for _, c := range req.Chunks {
			h.Write(c)
		}
	}()
	select {
	case <-writeDone:
	case <-time.After(100 * time.Millisecond):
	}
	time.Sleep(time.Duration(req.SettleMs) * time.Millisecond)
	if req.Kind == "bystander" {
		// wait for the file content to arrive
		deadline := time.Now().Add(5 * time.Second)
		for time.Now().Before(deadline) {
			outMu.Lock()
			done := bytes.Contains(out.Bytes(), []byte("gamma"))
			outMu.Unlock()
			if done {
				break
			}
			time.Sleep(2 * time.Millisecond)
		}
	}
	h.Shutdown()
	select {
	case <-readDone: // Read only notices the shutdown after its 1 s poll; do not wait for that
	case <-time.After(2 * time.Millisecond):
	}
	outMu.Lock()
	resp.Output = append([]byte(nil), out.Bytes()...)
	outMu.Unlock()
	resp.Goroutines = runtime.NumGoroutine()
	return
}

func workerMain() {
	lib.ServeWorker(func(line []byte) interface{} {
		var req request
		if err := json.Unmarshal(line, &req); err != nil {
			return response{Panic: "bad request: " + err.Error()}
		}
		if req.Kind == "ping" {
			return response{ID: req.ID, Goroutines: runtime.NumGoroutine()}
		}
		return runSession(req)
	})
}

// ---- parent side ------------------------------------------------------------------------------------

var (
	wk   *lib.Worker
	wkMu sync.Mutex
	seq  int
)

func worker() (*lib.Worker, error) {
	if wk != nil {
		return wk, nil
	}
	w, err := lib.StartWorker("C10_WORKER", 6*1024*1024)
	if err != nil {
		return nil, err
	}
	wk = w
	return w, nil
}

func restartWorker() {
	if wk != nil {
		wk.Kill()
		wk = nil
	}
}

func envelope(payload []byte) []byte {
	return []byte("protocol 4.1 base64 " + base64.StdEncoding.EncodeToString(payload) + ";")
}

type attackCase struct {
	Kind   string
	Raw    [][]byte // bytes written to the session, in order
	Descr  []string // human-readable form of each command
	NonTri bool
}

func optsGen() *rapid.Generator[string] {
	return rapid.OneOf(
		rapid.Just(""), rapid.Just("quiet=true"), rapid.Just("plain=true:quiet=true"), rapid.Just("serverless=true"),
		rapid.Just("before=1"), rapid.Just("after=2:max=1"), rapid.Just("max=0"),
		rapid.Just("before=2000000000"), rapid.Just("after=2000000000"), rapid.Just("max=2000000000"), rapid.Just("before=9223372036854775807"),
		rapid.Just("before=-1"), rapid.Just("before=-9223372036854775808"), rapid.Just("before=99999999999999999999"), rapid.Just("before=x"),
		rapid.Just("before"), rapid.Just("="), rapid.Just("=1"), rapid.Just("before=1:before=2"), rapid.Just("foo=base64%!!!"), rapid.Just("foo=base64%"), rapid.Just("foo=base64%QUJD"),
		rapid.Just(":::"), rapid.Just("quiet=true:"), rapid.StringMatching(`[a-z=:%0-9-]{0,20}`),
	)
}

func regexFieldGen() *rapid.Generator[string] {
	return rapid.OneOf(
		rapid.Just("regex:default ."), rapid.Just("regex:noop "), rapid.Just("regex:invert alpha"), rapid.Just("regex:default [a"), rapid.Just("regex:default (?P<x"),
		rapid.Just("regex:bogus,flags x"), rapid.Just("regex x"), rapid.Just("notregex x"), rapid.Just("regex:default"), rapid.Just("regex:"), rapid.Just(""),
		rapid.Just("regex:default a{1000000}"), rapid.Just("regex:default \\C"), rapid.Just("regex:default,invert,noop  two  spaces"),
		rapid.Map(gen.Regex(), func(p gen.Pattern) string { return "regex:default " + p.Expr }),
	)
}

func queryTextGen() *rapid.Generator[string] {
	valid := rapid.Custom(func(t *rapid.T) string {
		q := gen.Query(gen.Opts{NoOutfile: true}).Draw(t, "q")
		s := gen.GenSurface().Draw(t, "s")
		return gen.Render(q, s)
	})
	return rapid.OneOf(
		valid, valid,
		rapid.Just(""), rapid.Just("`"), rapid.Just("select `"), rapid.Just("select \""), rapid.Just("select"), rapid.Just("from"), rapid.Just("select count( from x"),
		rapid.Just("select a outfile /etc/passwd"), rapid.Just("select a outfile append /tmp/x"), rapid.Just("select count($line) from STATS group by $hostname"),
		rapid.Just("select a limit 99999999999999999999"), rapid.Just("select a interval -1"), rapid.Just("select a interval 0"), rapid.Just("select a logformat nosuch"),
		rapid.Just("select a set $x = md5sum("), rapid.Just("select a where a == "), rapid.Just("select a group by"), rapid.Just("select `` from ``"),
		rapid.Map(valid, func(s string) string {
			if len(s) > 3 {
				return s[:len(s)/2]
			}
			return s
		}),
	)
}

func genAttack(t *rapid.T) attackCase {
	var c attackCase
	c.Kind = rapid.SampledFrom([]string{"server", "server", "server", "health"}).Draw(t, "kind")
	base := filepath.Base(root)
	files := []string{root + "//*.log", root + "/./*.log", root + "/../" + base + "/*.log", root + "//small.log", root + "/./././s*.log", "/" + root + "/*.log", root + "/*.log/", root + "/*/../*.log",
		filepath.Dir(root) + "//" + base + "/*", root + "///", "//", "/./*", "*", "./*", "*/", "[", root + "/[", root + "/s[a-", root + "/{a,b}", root + "/\\*", root + "/*/*/*/*/*/*",
		filepath.Join(root, "small.log"), filepath.Join(root, "mapr.log"), filepath.Join(root, "*.log"), filepath.Join(root, "nosuch.log"), "", ".", "/", "/proc/self/environ", "/dev/zero", root, "a b", "\x00"}
	n := rapid.IntRange(1, 5).Draw(t, "ncmds")
	for i := 0; i < n; i++ {
		switch rapid.IntRange(0, 11).Draw(t, "cmdk") {
		case 0: // raw garbage
			g := rapid.OneOf(
				rapid.SliceOfN(rapid.Byte(), 0, 64),
				rapid.Map(rapid.SampledFrom([]string{";", ";;", " ;", "protocol;", "protocol 4.1;", "protocol 4.1 base64;", "protocol 4.1 base64 ;", "protocol 4.1 base64 !!!;", "protocol 4.1 base64 QQ==;", "protocol 4.1 base64 QQ== extra;", "protocol 3 base64 QQ==;", "protocol 99 base64 QQ==;", "protocol junk x y;", "protocol  4.1  base64  QQ==;", "x y z;", "\n;"}), func(s string) []byte { return []byte(s) }),
			).Draw(t, "garbage")
			c.Raw = append(c.Raw, g)
			c.Descr = append(c.Descr, fmt.Sprintf("raw %q", g))
			c.NonTri = true
		case 1: // big blob
			sz := rapid.SampledFrom([]int{1000, 65536}).Draw(t, "blobsz")
			b := bytes.Repeat([]byte{rapid.SampledFrom([]byte{'A', ' ', ':', 0xAC}).Draw(t, "blobch")}, sz)
			if rapid.Bool().Draw(t, "blobenv") {
				b = envelope(b)
			} else {
				b = append(b, ';')
			}
			c.Raw = append(c.Raw, b)
			c.Descr = append(c.Descr, fmt.Sprintf("blob %d", sz))
			c.NonTri = true
		default:
			word := rapid.SampledFrom([]string{"cat", "grep", "tail", "map", ".ack", "health", "timeout", "unknown", "", "CAT", "cat ", " cat"}).Draw(t, "word")
			opts := optsGen().Draw(t, "opts")
			head := word
			if opts != "" || rapid.IntRange(0, 4).Draw(t, "colon") == 0 {
				head = word + ":" + opts
			}
			var parts []string
			switch rapid.IntRange(0, 5).Draw(t, "shape") {
			case 0: // no args at all
				parts = []string{head}
			case 1: // one arg
				parts = []string{head, rapid.SampledFrom(files).Draw(t, "file")}
			case 2: // the clients' shape
				parts = []string{head, rapid.SampledFrom(files).Draw(t, "file"), regexFieldGen().Draw(t, "regex")}
			case 3: // query
				parts = []string{head, queryTextGen().Draw(t, "query")}
			case 4: // .ack shapes / arbitrary words
				parts = append([]string{head}, rapid.SliceOfN(rapid.SampledFrom([]string{"close", "connection", "", "x", "close connection", "10", "-1", "cat", "tail"}), 0, 6).Draw(t, "words")...)
			default: // timeout <n> <cmd> ...
				parts = []string{head, rapid.SampledFrom([]string{"1", "0", "-1", "x", "99999999999999999999"}).Draw(t, "tmo"), rapid.SampledFrom([]string{"cat", "tail", "grep", "map", ""}).Draw(t, "tcmd"),
					rapid.SampledFrom(files).Draw(t, "file"), regexFieldGen().Draw(t, "regex")}
			}
			payload := strings.Join(parts, " ")
			c.Raw = append(c.Raw, envelope([]byte(payload)))
			c.Descr = append(c.Descr, payload)
			// non-trivial: recognised command with a shape/options/regex/query the bundled clients never send
			known := word == "cat" || word == "grep" || word == "tail" || word == "map" || word == ".ack" || word == "health"
			clientShape := (len(parts) == 3 && strings.HasPrefix(parts[2], "regex:") && (word == "cat" || word == "grep" || word == "tail")) || (word == "map" && len(parts) == 2)
			if known && !clientShape {
				c.NonTri = true
			}
			if strings.Contains(opts, "2000000000") || strings.Contains(opts, "922337") || strings.Contains(opts, "base64%") || strings.Contains(payload, "`") {
				c.NonTri = true
			}
		}
	}
	return c
}

// window of recent cases for late attribution
var recent []attackCase

func call(w *lib.Worker, req request, timeout time.Duration) (response, error) {
	var resp response
	seq++
	req.ID = seq
	err := w.Call(req, &resp, timeout)
	return resp, err
}

func runAttack(c attackCase, settle int) (dead bool, panicMsg string, stderr string) {
	w, err := worker()
	if err != nil {
		return true, "cannot start worker: " + err.Error(), ""
	}
	resp, err := call(w, request{Kind: c.Kind, Chunks: c.Raw, SettleMs: settle}, 20*time.Second)
	if err != nil {
		st := w.StderrTail()
		restartWorker()
		return true, "", st
	}
	if resp.Panic != "" {
		return false, resp.Panic, ""
	}
	// liveness probe
	if _, err := call(w, request{Kind: "ping"}, 10*time.Second); err != nil {
		st := w.StderrTail()
		restartWorker()
		return true, "", st
	}
	return false, "", ""
}

func bystanderOK() (bool, string) {
	w, err := worker()
	if err != nil {
		return false, err.Error()
	}
	file := filepath.Join(root, "small.log")
	resp, err := call(w, request{Kind: "bystander", Chunks: [][]byte{envelope([]byte("cat:plain=true:quiet=true " + file + " regex:noop "))}, SettleMs: 0}, 20*time.Second)
	if err != nil {
		st := w.StderrTail()
		restartWorker()
		return false, "worker died during the bystander session: " + st
	}
	if !bytes.Contains(resp.Output, []byte("alpha\n")) || !bytes.Contains(resp.Output, []byte("gamma\n")) {
		return false, fmt.Sprintf("bystander session did not receive its file: %q", resp.Output)
	}
	return true, ""
}

var evalN int

func evalAttack(c attackCase) lib.Outcome {
	wkMu.Lock()
	defer wkMu.Unlock()
	var o lib.Outcome
	o.NonTrivial = c.NonTri
	o.Classes = []string{"kind=" + c.Kind, fmt.Sprintf("commands=%d", len(c.Raw))}
	evalN++
	recent = append(recent, c)
	if len(recent) > 50 {
		recent = recent[1:]
	}
	dead, pan, st := runAttack(c, 1)
	if pan != "" {
		o.Fail = fmt.Sprintf("server handler panicked on commands %q: %s", c.Descr, pan)
		return o
	}
	if dead {
		// attribute: replay this case alone in a fresh worker with a longer settle
		dead2, pan2, st2 := runAttack(c, 150)
		if dead2 || pan2 != "" {
			o.Fail = fmt.Sprintf("server process died on commands %q: %s %s", c.Descr, pan2, lastLines(st+st2))
			o.Observed = st2
			return o
		}
		// not this case: look for the culprit in the window
		for i := len(recent) - 2; i >= 0; i-- {
			d3, p3, st3 := runAttack(recent[i], 300)
			if d3 || p3 != "" {
				o.Fail = fmt.Sprintf("server process died (late) on an earlier case %q: %s %s", recent[i].Descr, p3, lastLines(st3))
				o.Trace = recent[i]
				return o
			}
		}
		o.Fail = fmt.Sprintf("server process died after commands %q (not reproducible on its own): %s", c.Descr, lastLines(st))
		return o
	}
	if evalN%25 == 0 {
		if ok, msg := bystanderOK(); !ok {
			o.Fail = fmt.Sprintf("after commands %q: %s", c.Descr, msg)
		}
	}
	return o
}

func lastLines(s string) string {
	if i := strings.Index(s, "panic:"); i >= 0 {
		s = s[i:]
	} else if i := strings.Index(s, "fatal error:"); i >= 0 {
		s = s[i:]
	}
	if len(s) > 900 {
		s = s[:900]
	}
	return s
}

func TestC10Attack(t *testing.T) {
	defer func() {
		wkMu.Lock()
		defer wkMu.Unlock()
		if wk != nil {
			wk.Kill()
			wk = nil
		}
	}()
	lib.Run(t, lib.Spec[attackCase]{Prop: "C10", Check: "attack",
		Rule: "1..5 commands written to a server or health session hosted in a crash-isolated worker (6 GB address-space cap): raw garbage / broken envelopes / 64 KiB blobs, or 'protocol 4.1 base64 <payload>;' with payload = command word {cat,grep,tail,map,.ack,health,timeout,unknown,''} x option lists (well-formed, missing '=', base64% values, huge/negative/overflowing before/after/max) x 0..6 arguments x regex fields (valid, invalid RE2, unknown flags) x query text (grammar-generated, truncated, lone back-quote, unbalanced quotes); oracle: handler never panics, worker process alive (ping after every case), a well-behaved bystander session still receives its file (every 25 cases and at the end); non-trivial = recognised command with an argument shape, option, regex or query the bundled clients never send; distinct by command bytes",
		Gen:  genAttack, Eval: evalAttack,
		Canon:    func(c attackCase) string { return strings.Join(c.Descr, "\x00") + c.Kind },
		SampleOf: func(c attackCase) interface{} { return map[string]interface{}{"kind": c.Kind, "commands": c.Descr} },
	})
	// late deaths: give sleeping goroutines (5 s retry / ack waits) time to finish, then probe again
	wkMu.Lock()
	defer wkMu.Unlock()
	if os.Getenv("VERIF_REPLAY") != "" || wk == nil {
		return
	}
	time.Sleep(6500 * time.Millisecond)
	rec := lib.NewRec("C10", "late-probe", "after all cases: wait 6.5 s for sleeping goroutines, then ping and run a bystander session")
	defer rec.Flush()
	rec.Case("late-probe", true)
	if ok, msg := bystanderOK(); !ok {
		path := rec.Violation(recent, "server process died late (within 6.5 s after the last case): "+msg, nil, nil, nil)
		t.Fatalf("late death; replay=%s", path)
	}
}

// ---- native fuzz (thorough tier): the fuzz engine's own worker processes are the crash isolation ----------

func FuzzC10(f *testing.F) {
	small := filepath.Join(os.TempDir(), "c10-fuzz-small.log")
	os.WriteFile(small, []byte("alpha\nbeta\ngamma\n"), 0o644)
	for _, s := range []string{"cat:plain=true " + small + " regex:noop ", "grep:before=1:after=1:max=1 " + small + " regex:default alpha", "tail " + small + " regex:invert x",
		"map select count($line) from STATS group by $hostname", ".ack close connection", "health", "tail", "cat:x", ".ack", "map", "map select `",
		"grep:before=9223372036854775807 " + small + " regex:default a", "timeout 1 cat " + small + " regex:noop "} {
		f.Add([]byte(s), uint8(0))
		f.Add([]byte(s), uint8(2))
	}
	f.Add([]byte("protocol 4.1 base64 !!!;protocol 3 x y;;"), uint8(1))
	f.Fuzz(func(t *testing.T, data []byte, mode uint8) {
		req := request{Kind: "server", SettleMs: 1}
		switch mode % 4 {
		case 0:
			req.Chunks = [][]byte{envelope(data)}
		case 1:
			req.Chunks = [][]byte{data}
		case 2:
			req.Kind = "health"
			req.Chunks = [][]byte{envelope(data)}
		default:
			// two commands: split the payload in the middle
			h := len(data) / 2
			req.Chunks = [][]byte{envelope(data[:h]), envelope(data[h:])}
		}
		if resp := runSession(req); resp.Panic != "" {
			t.Fatalf("handler panicked: %s", resp.Panic)
		}
	})
}
