package c11

import (
	"fmt"
	"strings"
	"testing"
	"time"

	"github.com/mimecast/dtail/internal/mapr"
	"github.com/mimecast/dtail/verif/gen"
	"github.com/mimecast/dtail/verif/lib"
	"github.com/mimecast/dtail/verif/model"
	"pgregory.net/rapid"
)

func TestMain(m *testing.M) { lib.Main(m, lib.InitDtailClient) }

// ---- valid queries -----------------------------------------------------------

type validCase struct {
	Q        gen.Q
	Surface  gen.Surface
	Rendered string
	Rows     []map[string]string
}

func opOf(agg string) mapr.AggregateOperation {
	switch agg {
	case "count":
		return mapr.Count
	case "sum":
		return mapr.Sum
	case "min":
		return mapr.Min
	case "max":
		return mapr.Max
	case "avg":
		return mapr.Avg
	case "len":
		return mapr.Len
	}
	return mapr.Last
}

func fieldsOf(q gen.Q) (fields []string, lits []string) {
	seen := map[string]bool{}
	add := func(s string) {
		if !seen[s] {
			seen[s] = true
			fields = append(fields, s)
		}
	}
	for _, c := range q.Where {
		for _, a := range []gen.Arg{c.L, c.R} {
			if a.Kind == "field" {
				add(a.S)
			} else {
				lits = append(lits, a.S)
			}
		}
	}
	for _, a := range q.Set {
		add(a.Var)
		if a.Kind == "field" || a.Kind == "bqfield" || a.Kind == "func" {
			add(a.Arg)
		} else {
			lits = append(lits, a.Arg)
		}
	}
	return
}

func genRows(t *rapid.T, q gen.Q) []map[string]string {
	fields, lits := fieldsOf(q)
	vals := append([]string{"5", "5.0", "-3", "0", "100", "abc", "", "free beer", "x1y2", "12ab"}, lits...)
	litSet := map[string]bool{}
	for _, l := range lits {
		litSet[l] = true
	}
	n := rapid.IntRange(1, 6).Draw(t, "nrows")
	rows := make([]map[string]string, n)
	for i := range rows {
		m := map[string]string{}
		for _, f := range fields {
			if rapid.IntRange(0, 9).Draw(t, "present") == 0 {
				continue
			}
			m[f] = rapid.SampledFrom(vals).Draw(t, "val")
		}
		// a field that is named like a string literal of the query: the literal must stay a literal
		if len(lits) > 0 && rapid.IntRange(0, 7).Draw(t, "collide") == 0 {
			l := rapid.SampledFrom(lits).Draw(t, "clit")
			if _, isField := m[l]; !isField {
				m[l] = "COLLISION"
			}
		}
		rows[i] = m
	}
	return rows
}

func genValid(t *rapid.T) validCase {
	q := gen.Query(gen.Opts{}).Draw(t, "q")
	s := gen.GenSurface().Draw(t, "surface")
	return validCase{Q: q, Surface: s, Rendered: gen.Render(q, s), Rows: genRows(t, q)}
}

func copyMap(m map[string]string) map[string]string {
	c := make(map[string]string, len(m))
	for k, v := range m {
		c[k] = v
	}
	return c
}

func evalValid(c validCase) lib.Outcome {
	q := c.Q
	o := lib.Outcome{}
	nonCanon := c.Surface.NonCanonical()
	o.NonTrivial = q.NumClauses() >= 3 && (q.HasQuoted() || q.HasBackquoted() || nonCanon || c.Surface.UsesUpper())
	o.Classes = []string{fmt.Sprintf("clauses=%d", q.NumClauses())}
	if q.HasQuoted() {
		o.Classes = append(o.Classes, "quoted-string")
	}
	if q.HasBackquoted() {
		o.Classes = append(o.Classes, "back-quoted")
	}
	if nonCanon {
		o.Classes = append(o.Classes, "non-canonical-order")
	}
	if c.Surface.UsesUpper() {
		o.Classes = append(o.Classes, "keyword-case")
	}
	fail := func(format string, a ...interface{}) lib.Outcome {
		o.Fail = fmt.Sprintf(format, a...)
		o.KnownKey = signature(c)
		return o
	}
	var pq *mapr.Query
	var err error
	func() {
		defer func() {
			if r := recover(); r != nil {
				err = fmt.Errorf("PANIC: %v", r)
			}
		}()
		pq, err = mapr.NewQuery(c.Rendered)
	}()
	if err != nil {
		return fail("valid query rejected: %q: %v", c.Rendered, err)
	}
	if pq == nil {
		return fail("valid query gave neither query nor error: %q", c.Rendered)
	}
	if len(pq.Select) != len(q.Select) {
		return fail("select list has %d items, want %d: %q -> %v", len(pq.Select), len(q.Select), c.Rendered, pq.Select)
	}
	for i, s := range q.Select {
		g := pq.Select[i]
		if g.Field != s.Field || g.FieldStorage != s.Storage() || g.Operation != opOf(s.Agg) {
			return fail("select[%d] = {%q %q %v}, want {%q %q %v}", i, g.Field, g.FieldStorage, g.Operation, s.Field, s.Storage(), opOf(s.Agg))
		}
	}
	if pq.Table != strings.ToUpper(q.Table) {
		return fail("table %q want %q", pq.Table, strings.ToUpper(q.Table))
	}
	wantGroup := []string{q.Select[0].Field}
	if len(q.GroupBy) > 0 {
		wantGroup = nil
		for _, g := range q.GroupBy {
			wantGroup = append(wantGroup, g.Name)
		}
	}
	if strings.Join(pq.GroupBy, "\x00") != strings.Join(wantGroup, "\x00") {
		return fail("group by %q want %q", pq.GroupBy, wantGroup)
	}
	wantOrder := ""
	if q.HasOrder {
		wantOrder = q.Select[q.OrderBy].Storage()
	}
	if pq.OrderBy != wantOrder || pq.ReverseOrder != (q.HasOrder && q.Reverse) {
		return fail("order by %q reverse=%v want %q reverse=%v", pq.OrderBy, pq.ReverseOrder, wantOrder, q.HasOrder && q.Reverse)
	}
	wantInterval := 5 * time.Second
	if q.HasIntvl {
		wantInterval = time.Duration(q.Interval) * time.Second
	}
	if pq.Interval != wantInterval {
		return fail("interval %v want %v", pq.Interval, wantInterval)
	}
	if q.HasLimit {
		if pq.Limit != q.Limit {
			return fail("limit %d want %d", pq.Limit, q.Limit)
		}
	} else if pq.Limit >= 0 {
		return fail("limit %d although none was given", pq.Limit)
	}
	if q.HasOutfile {
		if pq.Outfile == nil || pq.Outfile.FilePath != q.Outfile || pq.Outfile.AppendMode != q.Append {
			return fail("outfile %v want {%q append=%v}", pq.Outfile, q.Outfile, q.Append)
		}
	} else if pq.Outfile != nil {
		return fail("outfile %v although none was given", pq.Outfile)
	}
	if pq.LogFormat != q.LogFormat {
		return fail("logformat %q want %q", pq.LogFormat, q.LogFormat)
	}
	// where and set: behavioural comparison on generated rows
	for _, row := range c.Rows {
		want := model.EvalWhere(q.Where, row)
		got := pq.WhereClause(copyMap(row))
		if got != want {
			return fail("where clause on row %v: got %v want %v (query %q)", row, got, want, c.Rendered)
		}
		wm := copyMap(row)
		unspec := model.EvalSet(q.Set, wm)
		gm := copyMap(row)
		if err := pq.SetClause(gm); err != nil {
			return fail("set clause error %v", err)
		}
		for k, wv := range wm {
			if unspec[k] {
				continue
			}
			if gv, ok := gm[k]; !ok || gv != wv {
				return fail("set clause on row %v: %s = %q (present=%v) want %q (query %q)", row, k, gv, ok, wv, c.Rendered)
			}
		}
		for k := range gm {
			if _, ok := wm[k]; !ok {
				return fail("set clause on row %v: invented field %q", row, k)
			}
		}
	}
	return o
}

// signature maps a failing valid case to a known-finding key (only consulted if listed).
func signature(c validCase) string {
	return ""
}

func TestC11Valid(t *testing.T) {
	lib.Run(t, lib.Spec[validCase]{
		Prop: "C11", Check: "valid",
		Rule: "abstract query drawn from the documented grammar, rendered with random clause order / keyword case / separators / whitespace; non-trivial = >=3 clauses and one of: quoted string, back-quoted field, non-canonical clause order, non-lower-case keyword; distinct by (AST, rendering)",
		Gen:  genValid, Eval: evalValid,
		Canon:    func(c validCase) string { return c.Rendered },
		SampleOf: func(c validCase) interface{} { return c.Rendered },
	})
}

// ---- must-reject shapes ---------------------------------------------------------

type rejectCase struct {
	Q        gen.Q
	Surface  gen.Surface
	Kind     string
	Rendered string
}

var rejectKinds = []string{
	"no-select", "empty-select", "from-none", "from-two", "where-1", "where-2", "where-4", "where-5",
	"where-unknown-op", "select-unknown-agg", "set-unknown-func", "limit-word", "interval-word",
	"limit-dangling", "interval-dangling", "group-dangling", "group-by-dangling", "order-dangling", "rorder-dangling",
	"logformat-dangling", "outfile-dangling", "set-no-eq", "set-no-dollar", "set-2", "order-not-selected",
	"outfile-3", "outfile-2-noappend", "leading-junk", "empty", "blank", "select-unbalanced", "set-quoted-lvalue",
	"where-float-quoted",
}

func genReject(t *rapid.T) rejectCase {
	q := gen.Query(gen.Opts{}).Draw(t, "q")
	s := gen.GenSurface().Draw(t, "surface")
	kind := rapid.SampledFrom(rejectKinds).Draw(t, "kind")
	word := gen.FieldName().Draw(t, "word")
	cl := gen.Clauses(q, &s)
	repl := func(idx int, text string) { cl[idx] = text }
	switch kind {
	case "no-select":
		repl(0, "")
		if strings.Join(cl, "") == "" {
			cl[1] = "from x"
		}
	case "empty-select":
		repl(0, "select")
		cl[4] = "" // an order key could not be selected anyway
	case "from-none":
		repl(1, "from")
	case "from-two":
		repl(1, "from "+word+" other")
	case "where-1":
		repl(2, "where "+word)
	case "where-2":
		repl(2, "where "+word+" <")
	case "where-4":
		repl(2, "where "+word+" < 1 "+word)
	case "where-5":
		repl(2, "where "+word+" < 1 and "+word+" eq")
	case "where-unknown-op":
		repl(2, "where "+word+" "+rapid.SampledFrom([]string{"===", "=", "like", "<>", "equals", "~"}).Draw(t, "badop")+" 1")
	case "select-unknown-agg":
		repl(0, "select "+rapid.SampledFrom([]string{"median", "cnt", "total", "COUNT", "Sum"}).Draw(t, "badagg")+"("+word+")")
		cl[4] = ""
	case "set-unknown-func":
		repl(5, "set $x = "+rapid.SampledFrom([]string{"sha1", "upper", "md5"}).Draw(t, "badfn")+"("+word+")")
	case "limit-word":
		repl(7, "limit "+word)
	case "interval-word":
		repl(6, "interval "+word)
	case "limit-dangling":
		repl(7, "limit")
	case "interval-dangling":
		repl(6, "interval")
	case "group-dangling":
		repl(3, "group")
	case "group-by-dangling":
		repl(3, "group by")
	case "order-dangling":
		repl(4, "order by")
	case "rorder-dangling":
		repl(4, "rorder")
	case "logformat-dangling":
		repl(9, "logformat")
	case "outfile-dangling":
		repl(8, "outfile")
	case "set-no-eq":
		repl(5, "set $x "+word+" 1")
	case "set-no-dollar":
		repl(5, "set "+strings.TrimLeft(word, "$")+" = 1")
	case "set-2":
		repl(5, "set $x =")
	case "order-not-selected":
		repl(4, "order by zz_not_selected")
	case "outfile-3":
		repl(8, "outfile append a.csv b.csv")
	case "outfile-2-noappend":
		repl(8, "outfile a.csv b.csv")
	case "leading-junk":
		// handled below
	case "empty", "blank":
	case "select-unbalanced":
		repl(0, "select "+rapid.SampledFrom([]string{"count(", "count)", "count((x))", "sum(x", "sum(x))", ")("}).Draw(t, "unbal"))
		cl[4] = ""
	case "set-quoted-lvalue":
		repl(5, `set "$x" = 1`)
	case "where-float-quoted":
		repl(2, `where `+word+` < "5"`)
	}
	var parts []string
	for _, idx := range s.Order {
		if cl[idx] != "" {
			parts = append(parts, cl[idx])
		}
	}
	r := strings.Join(parts, " ")
	switch kind {
	case "leading-junk":
		r = word + " " + r
	case "empty":
		r = ""
	case "blank":
		r = rapid.SampledFrom([]string{" ", "\t", "\n", "   ", ",", " , "}).Draw(t, "blank")
	}
	return rejectCase{Q: q, Surface: s, Kind: kind, Rendered: r}
}

func evalReject(c rejectCase) lib.Outcome {
	o := lib.Outcome{NonTrivial: c.Q.NumClauses() >= 2, Classes: []string{"kind=" + c.Kind}}
	var pq *mapr.Query
	var err error
	panicked := false
	func() {
		defer func() {
			if r := recover(); r != nil {
				panicked = true
				err = fmt.Errorf("PANIC: %v", r)
			}
		}()
		pq, err = mapr.NewQuery(c.Rendered)
	}()
	if panicked {
		o.Fail = fmt.Sprintf("parser panicked on %q: %v", c.Rendered, err)
		return o
	}
	if err == nil {
		o.Fail = fmt.Sprintf("malformed query (%s) accepted without error: %q -> %v", c.Kind, c.Rendered, pq)
		o.KnownKey = "accepts-" + c.Kind
	}
	return o
}

func TestC11Reject(t *testing.T) {
	lib.Run(t, lib.Spec[rejectCase]{
		Prop: "C11", Check: "reject",
		Rule: "a valid rendered query in which exactly one clause is replaced by a shape the grammar excludes (33 kinds); non-trivial = the rest of the query has >=2 clauses; distinct by rendering",
		Gen:  genReject, Eval: evalReject,
		Canon:       func(c rejectCase) string { return c.Rendered },
		SampleOf:    func(c rejectCase) interface{} { return map[string]string{"kind": c.Kind, "query": c.Rendered} },
		SampleClass: func(c rejectCase, o lib.Outcome) string { return c.Kind },
	})
}

// ---- mutants ---------------------------------------------------------------------

type mutantCase struct {
	Base    string
	Mutated string
	Ops     []string
}

var injectTokens = []string{`"`, "`", "(", ")", ",", "select", "from", "where", "set", "group", "by", "order", "rorder", "interval", "limit",
	"outfile", "append", "logformat", "and", "=", "==", "eq", "$", "``", `""`, "` `", "`a", "a`", "count(", "md5sum(", ";", "\x00", "\xff", "€", "-1", "99999999999999999999"}

func mutate(t *rapid.T, s string) (string, []string) {
	var ops []string
	n := rapid.IntRange(1, 4).Draw(t, "nmut")
	for i := 0; i < n; i++ {
		toks := strings.Fields(s)
		op := rapid.SampledFrom([]string{"del", "dup", "swap", "trunc", "inject", "injectraw", "cutbyte"}).Draw(t, "mop")
		ops = append(ops, op)
		switch op {
		case "del":
			if len(toks) > 0 {
				k := rapid.IntRange(0, len(toks)-1).Draw(t, "k")
				toks = append(toks[:k:k], toks[k+1:]...)
			}
			s = strings.Join(toks, " ")
		case "dup":
			if len(toks) > 0 {
				k := rapid.IntRange(0, len(toks)-1).Draw(t, "k")
				toks = append(toks[:k+1:k+1], toks[k:]...)
			}
			s = strings.Join(toks, " ")
		case "swap":
			if len(toks) > 1 {
				a := rapid.IntRange(0, len(toks)-1).Draw(t, "a")
				b := rapid.IntRange(0, len(toks)-1).Draw(t, "b")
				toks[a], toks[b] = toks[b], toks[a]
			}
			s = strings.Join(toks, " ")
		case "trunc":
			if len(s) > 0 {
				s = s[:rapid.IntRange(0, len(s)).Draw(t, "cut")]
			}
		case "inject":
			tok := rapid.SampledFrom(injectTokens).Draw(t, "tok")
			k := rapid.IntRange(0, len(toks)).Draw(t, "k")
			toks = append(toks[:k:k], append([]string{tok}, toks[k:]...)...)
			s = strings.Join(toks, " ")
		case "injectraw":
			tok := rapid.SampledFrom(injectTokens).Draw(t, "tok")
			k := rapid.IntRange(0, len(s)).Draw(t, "pos")
			s = s[:k] + tok + s[k:]
		case "cutbyte":
			if len(s) > 0 {
				k := rapid.IntRange(0, len(s)-1).Draw(t, "pos")
				s = s[:k] + s[k+1:]
			}
		}
	}
	return s, ops
}

func genMutant(t *rapid.T) mutantCase {
	q := gen.Query(gen.Opts{}).Draw(t, "q")
	s := gen.GenSurface().Draw(t, "surface")
	base := gen.Render(q, s)
	m, ops := mutate(t, base)
	return mutantCase{Base: base, Mutated: m, Ops: ops}
}

// CheckArbitrary is the oracle for arbitrary strings: never panic; no silent (nil,nil); an accepted query has a select list.
func checkArbitrary(s string) string {
	var pq *mapr.Query
	var err error
	var pan interface{}
	func() {
		defer func() { pan = recover() }()
		pq, err = mapr.NewQuery(s)
		if err == nil && pq != nil {
			// an accepted query must also be evaluable without panicking
			row := map[string]string{"foo": "1", "bar": "x", "$line": "l"}
			pq.WhereClause(row)
			pq.SetClause(row)
		}
	}()
	if pan != nil {
		return fmt.Sprintf("panic on %q: %v", s, pan)
	}
	if err == nil && pq == nil {
		return fmt.Sprintf("neither query nor error for %q", s)
	}
	if err == nil && len(pq.Select) < 1 {
		return fmt.Sprintf("accepted query without select list: %q", s)
	}
	if err == nil && len(pq.GroupBy) < 1 {
		return fmt.Sprintf("accepted query without group key: %q", s)
	}
	return ""
}

func evalMutant(c mutantCase) lib.Outcome {
	o := lib.Outcome{NonTrivial: c.Mutated != c.Base, Classes: c.Ops[:1]}
	if msg := checkArbitrary(c.Mutated); msg != "" {
		o.Fail = msg
	}
	return o
}

func TestC11Mutants(t *testing.T) {
	lib.Run(t, lib.Spec[mutantCase]{
		Prop: "C11", Check: "mutants",
		Rule: "a valid rendered query after 1-4 token/byte mutations (delete, duplicate, swap, truncate, inject quote/back-quote/paren/keyword/garbage); oracle: no panic, error or a query with a select list; non-trivial = mutation changed the text; distinct by mutated text",
		Gen:  genMutant, Eval: evalMutant,
		Canon:    func(c mutantCase) string { return c.Mutated },
		SampleOf: func(c mutantCase) interface{} { return c.Mutated },
	})
}

// ---- native fuzz (thorough tier only) ------------------------------------------------

func FuzzC11(f *testing.F) {
	for _, s := range []string{"", "select foo from bar", "select `", "select count(x) from t where a == 1 and b eq \"x\" group by a order by count(x) limit 3",
		"select a set $x = md5sum(maskdigits(b))", "select a outfile append \"x.csv\"", "select `from` logformat csv", "where", "select a where \"\" eq \"\""} {
		f.Add(s)
	}
	f.Fuzz(func(t *testing.T, s string) {
		if msg := checkArbitrary(s); msg != "" {
			t.Fatal(msg)
		}
	})
}
