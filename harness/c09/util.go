package c09

import "encoding/base64"

func b64(s string) string { return base64.StdEncoding.EncodeToString([]byte(s)) }
