package c09

import (
	"fmt"
	"net"
	"os"
	"path/filepath"
	"sync"
	"testing"

	"github.com/mimecast/dtail/internal/config"
	dserver "github.com/mimecast/dtail/internal/server"
	"github.com/mimecast/dtail/verif/lib"
	"pgregory.net/rapid"
)

// In-process layer for password logins: the server's password callback with generated job lists and peer
// addresses (IPv4 and IPv6), which real handshakes from this sandbox cannot vary.

type jobSpec struct {
	Name      string
	AllowFrom []string
}

type pwCase struct {
	Scheduled  []jobSpec
	Continuous []jobSpec
	User       string
	Password   string
	Remote     string // host part of the peer address
}

var pwUsers = []string{"DTAIL-SCHEDULE", "DTAIL-CONTINUOUS", "DTAIL-HEALTH", "alice", "dtail-schedule", "DTAIL-SCHEDULE "}
var jobNames = []string{"j1", "j2", "nightly", "errors"}
var allowEntries = []string{"localhost", "127.0.0.1", "10.1.2.3", "::1", "2001:db8::5", "no-such-host.invalid", "", "10.1.2.4"}
var remotes = []string{"127.0.0.1", "10.1.2.3", "10.1.2.4", "192.0.2.9", "::1", "2001:db8::5", "2001:db8::6", "fe80::1"}

func genJobs(t *rapid.T, label string) []jobSpec {
	n := rapid.IntRange(0, 3).Draw(t, label+"-n")
	var js []jobSpec
	for i := 0; i < n; i++ {
		j := jobSpec{Name: rapid.SampledFrom(jobNames).Draw(t, label+"-name")}
		na := rapid.IntRange(0, 3).Draw(t, label+"-na")
		for k := 0; k < na; k++ {
			j.AllowFrom = append(j.AllowFrom, rapid.SampledFrom(allowEntries).Draw(t, label+"-allow"))
		}
		js = append(js, j)
	}
	return js
}

func genPW(t *rapid.T) pwCase {
	c := pwCase{Scheduled: genJobs(t, "sched"), Continuous: genJobs(t, "cont"), User: rapid.SampledFrom(pwUsers).Draw(t, "user"), Remote: rapid.SampledFrom(remotes).Draw(t, "remote")}
	pws := append([]string{"DTAIL-HEALTH", "", "nosuchjob"}, jobNames...)
	c.Password = rapid.SampledFrom(pws).Draw(t, "password")
	if rapid.Bool().Draw(t, "plausible") {
		// a background user with the name of one of its configured jobs
		if rapid.Bool().Draw(t, "sched-user") && len(c.Scheduled) > 0 {
			c.User, c.Password = "DTAIL-SCHEDULE", c.Scheduled[rapid.IntRange(0, len(c.Scheduled)-1).Draw(t, "sj")].Name
		} else if len(c.Continuous) > 0 {
			c.User, c.Password = "DTAIL-CONTINUOUS", c.Continuous[rapid.IntRange(0, len(c.Continuous)-1).Draw(t, "cj")].Name
		}
	}
	return c
}

var (
	pwOnce sync.Once
	pwSrv  *dserver.Server
	pwMu   sync.Mutex
)

type pwMeta struct {
	fakeMeta
	remote net.Addr
}

func (m pwMeta) RemoteAddr() net.Addr { return m.remote }

func evalPW(c pwCase) lib.Outcome {
	var o lib.Outcome
	pwMu.Lock()
	defer pwMu.Unlock()
	pwOnce.Do(func() {
		kp := lib.NewKeyPair("hostkey")
		p := filepath.Join(root, "pw_host_key")
		os.WriteFile(p, kp.PrivatePEM, 0o600)
		config.Server.HostKeyFile = p
		pwSrv = dserver.New()
	})
	config.Server.Schedule = nil
	for _, j := range c.Scheduled {
		var s config.Scheduled
		s.Name, s.AllowFrom = j.Name, j.AllowFrom
		config.Server.Schedule = append(config.Server.Schedule, s)
	}
	config.Server.Continuous = nil
	for _, j := range c.Continuous {
		var s config.Continuous
		s.Name, s.AllowFrom = j.Name, j.AllowFrom
		config.Server.Continuous = append(config.Server.Continuous, s)
	}
	ip := net.ParseIP(c.Remote)
	remote := &net.TCPAddr{IP: ip, Port: 40123}
	_, err := pwSrv.Callback(pwMeta{fakeMeta: fakeMeta{user: c.User}, remote: remote}, []byte(c.Password))
	granted := err == nil

	// the rule of the property
	onList := func(jobs []jobSpec) bool {
		for _, j := range jobs {
			if j.Name != c.Password {
				continue
			}
			for _, a := range j.AllowFrom {
				ips, err := net.LookupIP(a)
				if err != nil {
					continue
				}
				for _, x := range ips {
					if x.Equal(ip) {
						return true
					}
				}
			}
		}
		return false
	}
	want := false
	switch c.User {
	case "DTAIL-HEALTH":
		want = c.Password == "DTAIL-HEALTH"
	case "DTAIL-SCHEDULE":
		want = onList(c.Scheduled)
	case "DTAIL-CONTINUOUS":
		want = onList(c.Continuous)
	}
	v6 := ip.To4() == nil
	o.Classes = []string{"user=" + c.User}
	if v6 {
		o.Classes = append(o.Classes, "ipv6-peer")
	} else {
		o.Classes = append(o.Classes, "ipv4-peer")
	}
	if want {
		o.Classes = append(o.Classes, "on-allow-list")
	}
	o.NonTrivial = (c.User == "DTAIL-SCHEDULE" || c.User == "DTAIL-CONTINUOUS") && (len(c.Scheduled)+len(c.Continuous)) > 0
	switch {
	case granted && !want:
		o.Fail = fmt.Sprintf("password login user=%q password=%q from %s was granted although the rule refuses it (scheduled=%v continuous=%v)", c.User, c.Password, remote, c.Scheduled, c.Continuous)
	case !granted && want && !v6:
		o.Fail = fmt.Sprintf("password login user=%q password=%q from %s was refused although the job's allow list holds that address (scheduled=%v continuous=%v): %v", c.User, c.Password, remote, c.Scheduled, c.Continuous, err)
	case !granted && want && v6:
		// the server derives the peer's IP by cutting the address at the first ':', so an IPv6 peer is never on a list:
		// fail-closed, not a violation of "granted only if"
		o.Classes = append(o.Classes, "ipv6-peer-on-list-refused")
	}
	return o
}

func TestC09PasswordCallback(t *testing.T) {
	lib.Run(t, lib.Spec[pwCase]{Prop: "C09", Check: "password-callback",
		Rule: "the server's password callback in-process: 0..3 scheduled and 0..3 continuous jobs (names from a pool of 4, so the same name occurs in both lists) with 0..3 AllowFrom entries each (localhost, IPv4 and IPv6 literals, an unresolvable name, empty), user in {DTAIL-SCHEDULE, DTAIL-CONTINUOUS, DTAIL-HEALTH, ordinary and look-alike names}, password in {job names, health password, other}, peer address IPv4 or IPv6 on / not on the lists; oracle: granted <=> health user with the health password, or background user whose password names a job of its own kind with the peer's address among the resolved AllowFrom entries (for IPv6 peers only 'granted => rule' is demanded: the server never matches them, which is fail-closed). Non-trivial = background user with at least one job configured",
		Gen: genPW, Eval: evalPW})
}
