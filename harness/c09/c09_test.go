package c09

import (
	"bytes"
	"crypto/ecdsa"
	"crypto/ed25519"
	"crypto/elliptic"
	"crypto/rand"
	"crypto/rsa"
	"fmt"
	"io"
	"net"
	"os"
	"path/filepath"
	"strings"
	"sync"
	"testing"
	"time"

	sshserver "github.com/mimecast/dtail/internal/ssh/server"
	"github.com/mimecast/dtail/verif/lib"
	gossh "golang.org/x/crypto/ssh"
	"pgregory.net/rapid"
)

var (
	root    string
	pool    []gossh.Signer
	poolTyp []string
	srv     *lib.Server
	srvMu   sync.Mutex
)

func TestMain(m *testing.M) {
	lib.Main(m, func() {
		lib.InitDtailServer()
		cwd, _ := os.Getwd()
		root, _ = os.MkdirTemp(cwd, "c09-")
		os.MkdirAll(filepath.Join(cwd, "cache"), 0o755) // the in-process callback looks for <cwd>/cache/<user>.authorized_keys
		for i := 0; i < 5; i++ {
			_, p, _ := ed25519.GenerateKey(rand.Reader)
			s, _ := gossh.NewSignerFromKey(p)
			pool, poolTyp = append(pool, s), append(poolTyp, "ed25519")
		}
		for i := 0; i < 2; i++ {
			p, _ := ecdsa.GenerateKey(elliptic.P256(), rand.Reader)
			s, _ := gossh.NewSignerFromKey(p)
			pool, poolTyp = append(pool, s), append(poolTyp, "ecdsa")
		}
		for i := 0; i < 2; i++ {
			p, _ := rsa.GenerateKey(rand.Reader, 2048)
			s, _ := gossh.NewSignerFromKey(p)
			pool, poolTyp = append(pool, s), append(poolTyp, "rsa")
		}
	})
}

// ---- authorized_keys file generator -------------------------------------------------------------------

type akItem struct {
	Kind    string // key | comment | blank | spaces
	Key     int    // index into the pool
	Options string
	Comment string
	Lead    string // leading blanks
}

type akFile struct {
	Items   []akItem
	CRLF    bool
	FinalNL bool
}

func (f akFile) text() string {
	var sb strings.Builder
	nl := "\n"
	if f.CRLF {
		nl = "\r\n"
	}
	for i, it := range f.Items {
		switch it.Kind {
		case "key":
			sb.WriteString(it.Lead)
			if it.Options != "" {
				sb.WriteString(it.Options + " ")
			}
			sb.WriteString(strings.TrimSpace(string(gossh.MarshalAuthorizedKey(pool[it.Key].PublicKey()))))
			if it.Comment != "" {
				sb.WriteString(" " + it.Comment)
			}
		case "comment":
			sb.WriteString(it.Lead + "# " + it.Comment)
		case "blank":
		case "spaces":
			sb.WriteString("  \t ")
		}
		if i < len(f.Items)-1 || f.FinalNL {
			sb.WriteString(nl)
		}
	}
	return sb.String()
}

func (f akFile) keys() map[int]bool {
	m := map[int]bool{}
	for _, it := range f.Items {
		if it.Kind == "key" {
			m[it.Key] = true
		}
	}
	return m
}

func genAK(t *rapid.T, label string) akFile {
	var f akFile
	n := rapid.IntRange(1, 7).Draw(t, label+"n")
	haveKey := false
	for i := 0; i < n; i++ {
		k := rapid.SampledFrom([]string{"key", "key", "key", "comment", "blank", "spaces"}).Draw(t, label+"kind")
		if i == n-1 && !haveKey {
			k = "key"
		}
		it := akItem{Kind: k}
		switch k {
		case "key":
			haveKey = true
			it.Key = rapid.IntRange(0, len(pool)-1).Draw(t, label+"key")
			it.Options = rapid.SampledFrom([]string{"", "", "no-pty", `command="echo hi",no-pty`, `from="10.0.0.1,*.example.org"`, `environment="A=b c",no-port-forwarding`, `command="a \"quoted\" thing"`,
				`environment="TICKET=OPS#4711"`, `command="/bin/true # maintenance",no-pty`}).Draw(t, label+"opts")
			it.Comment = rapid.SampledFrom([]string{"", "user@host", "my key 2024", "# odd", "ssh-rsa AAAA"}).Draw(t, label+"cmt")
			it.Lead = rapid.SampledFrom([]string{"", "", "", " ", "\t"}).Draw(t, label+"lead")
		case "comment":
			it.Comment = rapid.SampledFrom([]string{"a comment", "", "ssh-ed25519 AAAAC3NzaC1lZDI1NTE5AAAAIdisabled key", "#", "managed by puppet"}).Draw(t, label+"ctext")
			it.Lead = rapid.SampledFrom([]string{"", "", " "}).Draw(t, label+"clead")
		}
		f.Items = append(f.Items, it)
	}
	f.CRLF = rapid.IntRange(0, 4).Draw(t, label+"crlf") == 0
	f.FinalNL = rapid.IntRange(0, 4).Draw(t, label+"finalnl") != 0
	return f
}

func fileClasses(f akFile) (nontrivial bool, classes []string) {
	nkeys, nother := 0, 0
	for _, it := range f.Items {
		if it.Kind == "key" {
			nkeys++
			if it.Options != "" {
				classes = append(classes, "key-options")
			}
		} else {
			nother++
		}
	}
	if last := f.Items[len(f.Items)-1]; last.Kind != "key" {
		classes = append(classes, "non-key-line-after-last-key")
	}
	if f.CRLF {
		classes = append(classes, "crlf")
	}
	if !f.FinalNL {
		classes = append(classes, "no-final-newline")
	}
	return nkeys >= 2 && nother >= 1, classes
}

// installFile puts content at path the way an administrator or a deployment tool might: 0 = written in place,
// 1 = prepared next to it and renamed over it, 2 = renamed over it with an old modification time (restore from a
// backup, cp -p, rsync -t), 3 = written in place and given the previous file's modification time.
func installFile(path string, content []byte, how int) {
	var prev time.Time
	if st, err := os.Stat(path); err == nil {
		prev = st.ModTime()
	}
	switch how {
	case 1, 2:
		tmp := path + ".new"
		os.WriteFile(tmp, content, 0o644)
		if how == 2 {
			old := time.Date(2019, 3, 1, 12, 0, 0, 0, time.UTC)
			os.Chtimes(tmp, old, old)
		}
		os.Rename(tmp, path)
	case 3:
		os.WriteFile(path, content, 0o644)
		if !prev.IsZero() {
			os.Chtimes(path, prev, prev)
		}
	default:
		os.WriteFile(path, content, 0o644)
	}
}

// ---- (a) in-process public key callback ------------------------------------------------------------------

type fakeMeta struct{ user string }

func (m fakeMeta) User() string          { return m.user }
func (m fakeMeta) SessionID() []byte     { return []byte("sid") }
func (m fakeMeta) ClientVersion() []byte { return []byte("SSH-2.0-Go") }
func (m fakeMeta) ServerVersion() []byte { return []byte("SSH-2.0-Go") }
func (m fakeMeta) RemoteAddr() net.Addr  { return &net.TCPAddr{IP: net.IPv4(127, 0, 0, 1), Port: 40000} }
func (m fakeMeta) LocalAddr() net.Addr   { return &net.TCPAddr{IP: net.IPv4(127, 0, 0, 1), Port: 2222} }

type keyCase struct {
	Install   int // how the key files are put in place (see installFile)
	File      akFile
	OtherFile akFile // another user's file
	Offered   int
	User      string // alice | bob | nofile
}

func genKeyCase(t *rapid.T) keyCase {
	return keyCase{Install: rapid.SampledFrom([]int{0, 0, 1, 2, 3}).Draw(t, "install"), File: genAK(t, "a"), OtherFile: genAK(t, "b"), Offered: rapid.IntRange(0, len(pool)-1).Draw(t, "offered"),
		User: rapid.SampledFrom([]string{"alice", "alice", "alice", "bob", "nofile"}).Draw(t, "user")}
}

func evalKeyCase(c keyCase) lib.Outcome {
	var o lib.Outcome
	o.NonTrivial, o.Classes = fileClasses(c.File)
	o.Classes = append(o.Classes, "offered="+poolTyp[c.Offered], "user="+c.User)
	cwd, _ := os.Getwd()
	installFile(filepath.Join(cwd, "cache", "alice.authorized_keys"), []byte(c.File.text()), c.Install)
	installFile(filepath.Join(cwd, "cache", "bob.authorized_keys"), []byte(c.OtherFile.text()), c.Install)
	if c.Install >= 2 {
		o.Classes = append(o.Classes, "key-file-replaced-keeping-an-old-mtime")
	}
	os.Remove(filepath.Join(cwd, "cache", "nofile.authorized_keys"))
	want := false
	switch c.User {
	case "alice":
		want = c.File.keys()[c.Offered]
	case "bob":
		want = c.OtherFile.keys()[c.Offered]
	}
	if want {
		o.Classes = append(o.Classes, "listed")
	} else {
		o.Classes = append(o.Classes, "unlisted")
	}
	_, err := sshserver.PublicKeyCallback(fakeMeta{user: c.User}, pool[c.Offered].PublicKey())
	got := err == nil
	if got != want {
		o.Fail = fmt.Sprintf("public key auth for user %s with key #%d (%s): granted=%v, want %v (err=%v); authorized_keys:\n%s", c.User, c.Offered, poolTyp[c.Offered], got, want, err, c.File.text())
	}
	return o
}

func TestC09KeyCallback(t *testing.T) {
	lib.Run(t, lib.Spec[keyCase]{Prop: "C09", Check: "key-callback",
		Rule: "authorized_keys text for two users = 1..7 lines of {key with optional options/comment/leading blanks (ed25519, ecdsa-p256, rsa-2048 from a pool of 9), comment, blank, whitespace-only} with LF or CRLF, with or without final newline; offered key drawn from the pool; user with own file / other user's file / no file; oracle: PublicKeyCallback grants <=> the offered key is listed in that user's file; non-trivial = file with >=2 keys and >=1 non-key line; distinct by full case",
		Gen:  genKeyCase, Eval: evalKeyCase,
		SampleOf: func(c keyCase) interface{} {
			return map[string]interface{}{"user": c.User, "offered": c.Offered, "file": c.File.text()}
		}})
}

// ---- (b) real handshakes --------------------------------------------------------------------------------

func server() (*lib.Server, error) {
	srvMu.Lock()
	defer srvMu.Unlock()
	if srv != nil && srv.Alive() {
		return srv, nil
	}
	job := func(name string, allow ...string) map[string]interface{} {
		return map[string]interface{}{"Name": name, "Enable": false, "Files": "/nonexistent", "Query": "select count($line)", "AllowFrom": allow, "TimeRange": []int{0, 0}}
	}
	cjob := func(name string, allow ...string) map[string]interface{} {
		return map[string]interface{}{"Name": name, "Enable": false, "Files": "/nonexistent", "Query": "select count($line)", "AllowFrom": allow}
	}
	s, err := lib.StartServer(lib.ServerOpts{Dir: filepath.Join(root, "srv"), Label: "srvc09",
		Cfg: lib.ServerCfg{MaxConnections: 1000000, // logins that never open a shell leak a slot (finding of C14)

			Schedule:   []map[string]interface{}{job("sjob-local", "localhost"), job("sjob-ip", "127.0.0.1"), job("sjob-other", "10.1.2.3"), job("sjob-none"), job("sjob-unres", "no-such-host.invalid"),
				// the two kinds of jobs have separate name spaces: the same name may carry different allow lists
				job("dual-a", "127.0.0.1"), job("dual-b", "10.1.2.3")},
			Continuous: []map[string]interface{}{cjob("cjob-local", "10.9.9.9", "localhost"), cjob("cjob-other", "10.1.2.3"), cjob("cjob-none"), cjob("dual-a", "10.1.2.3"), cjob("dual-b", "localhost")}},
		Users: map[string][]string{}})
	if err != nil {
		return nil, err
	}
	os.WriteFile(filepath.Join(s.Dir, "secret.txt"), []byte("PLANTED-SECRET-c09\n"), 0o644)
	srv = s
	return s, nil
}

type hsCase struct {
	Install  int // how the key files are put in place (see installFile)
	File     akFile
	Offered  int
	User     string
	Method   string // key | password
	Password string
	Commands []string // sent once a session is granted
}

var passwords = []string{"DTAIL-HEALTH", "dtail-health", "DTAIL-HEALTH ", "", "sjob-local", "sjob-ip", "sjob-other", "sjob-none", "sjob-unres", "cjob-local", "cjob-other", "cjob-none", "nosuchjob", "DTAIL-SCHEDULE", "DTAIL-CONTINUOUS", "dual-a", "dual-b", "dual-a", "dual-b"}
var users = []string{"alice", "DTAIL-HEALTH", "DTAIL-SCHEDULE", "DTAIL-CONTINUOUS", "dtail-health", "root", "Dtail-Health", "dtail-schedule", "DTAIL-continuous", "DTAIL-HEALTH "}

func genHS(t *rapid.T) hsCase {
	c := hsCase{Install: rapid.SampledFrom([]int{0, 0, 1, 2, 3}).Draw(t, "install"), File: genAK(t, "a"), Offered: rapid.IntRange(0, len(pool)-1).Draw(t, "offered"), User: rapid.SampledFrom(users).Draw(t, "user"),
		Method: rapid.SampledFrom([]string{"key", "password", "password"}).Draw(t, "method"), Password: rapid.SampledFrom(passwords).Draw(t, "password")}
	if rapid.IntRange(0, 2).Draw(t, "pairing") == 0 {
		// favour plausible pairings
		switch rapid.IntRange(0, 4).Draw(t, "pair") {
		case 4:
			// a user name that only looks like a service user, with that service user's valid credentials
			c.Method = "password"
			switch rapid.IntRange(0, 2).Draw(t, "lookalike") {
			case 0:
				c.User, c.Password = rapid.SampledFrom([]string{"dtail-health", "Dtail-Health", "DTAIL-HEALTh"}).Draw(t, "lh"), "DTAIL-HEALTH"
			case 1:
				c.User, c.Password = rapid.SampledFrom([]string{"dtail-schedule", "Dtail-Schedule"}).Draw(t, "ls"), rapid.SampledFrom([]string{"sjob-local", "sjob-ip", "dual-a"}).Draw(t, "lsp")
			default:
				c.User, c.Password = rapid.SampledFrom([]string{"dtail-continuous", "DTAIL-continuous"}).Draw(t, "lc"), rapid.SampledFrom([]string{"cjob-local", "dual-b"}).Draw(t, "lcp")
			}
		case 0:
			c.User, c.Method, c.Password = "DTAIL-HEALTH", "password", "DTAIL-HEALTH"
		case 1:
			c.User, c.Method, c.Password = "DTAIL-SCHEDULE", "password", rapid.SampledFrom([]string{"sjob-local", "sjob-ip", "cjob-local", "sjob-other", "dual-a", "dual-b"}).Draw(t, "sp")
		case 2:
			c.User, c.Method, c.Password = "DTAIL-CONTINUOUS", "password", rapid.SampledFrom([]string{"cjob-local", "sjob-local", "cjob-other", "dual-a", "dual-b"}).Draw(t, "cp")
		default:
			c.User, c.Method = "alice", "key"
		}
	}
	secret := "SECRETPATH"
	c.Commands = rapid.SliceOfN(rapid.SampledFrom([]string{"health", "cat:plain=true " + secret + " regex:noop ", "grep " + secret + " regex:default PLANTED", "tail " + secret + " regex:noop ",
		"map select $line from . logformat generic", "cat " + secret, ".ack close connection", "health " + secret, "cat:serverless=true " + secret + " regex:noop "}), 1, 3).Draw(t, "commands")
	return c
}

func envelope(payload string) []byte {
	return []byte("protocol 4.1 base64 " + b64(payload) + ";")
}

func evalHS(c hsCase) lib.Outcome {
	var o lib.Outcome
	s, err := server()
	if err != nil {
		return lib.Outcome{Inconclusive: "server: " + err.Error()}
	}
	nt, classes := fileClasses(c.File)
	o.Classes = append(classes, "method="+c.Method, "user="+c.User)
	installFile(filepath.Join(s.Dir, "cache", "alice.authorized_keys"), []byte(c.File.text()), c.Install)
	installFile(filepath.Join(s.Dir, "cache", "DTAIL-HEALTH.authorized_keys"), []byte(c.File.text()), c.Install) // a key file for the health user must not widen what it can do
	want := false
	var auth []gossh.AuthMethod
	if c.Method == "key" {
		auth = []gossh.AuthMethod{gossh.PublicKeys(pool[c.Offered])}
		want = (c.User == "alice" || c.User == "DTAIL-HEALTH") && c.File.keys()[c.Offered]
		o.NonTrivial = nt
	} else {
		auth = []gossh.AuthMethod{gossh.Password(c.Password)}
		switch c.User {
		case "DTAIL-HEALTH":
			want = c.Password == "DTAIL-HEALTH"
		case "DTAIL-SCHEDULE":
			want = c.Password == "sjob-local" || c.Password == "sjob-ip" || c.Password == "dual-a"
			o.NonTrivial = strings.HasPrefix(c.Password, "sjob") || strings.HasPrefix(c.Password, "cjob") || strings.HasPrefix(c.Password, "dual")
		case "DTAIL-CONTINUOUS":
			want = c.Password == "cjob-local" || c.Password == "dual-b"
			o.NonTrivial = strings.HasPrefix(c.Password, "sjob") || strings.HasPrefix(c.Password, "cjob") || strings.HasPrefix(c.Password, "dual")
		}
	}
	cfg := &gossh.ClientConfig{User: c.User, Auth: auth, HostKeyCallback: gossh.InsecureIgnoreHostKey(), Timeout: 10 * time.Second}
	client, err := gossh.Dial("tcp", s.Addr(), cfg)
	got := err == nil
	if got != want {
		o.Fail = fmt.Sprintf("SSH login user=%q method=%s password=%q key#%d: granted=%v, want %v (err=%v); authorized_keys:\n%s", c.User, c.Method, c.Password, c.Offered, got, want, err, c.File.text())
		if client != nil {
			client.Close()
		}
		return o
	}
	if !got {
		o.Classes = append(o.Classes, "rejected")
		return o
	}
	defer client.Close()
	o.Classes = append(o.Classes, "granted")
	// the health user can run nothing but the health command
	if c.User == "DTAIL-HEALTH" {
		sess, err := client.NewSession()
		if err != nil {
			return o
		}
		defer sess.Close()
		stdin, _ := sess.StdinPipe()
		stdout, _ := sess.StdoutPipe()
		if err := sess.Shell(); err != nil {
			return o
		}
		var out bytes.Buffer
		done := make(chan struct{})
		go func() { io.Copy(&out, stdout); close(done) }()
		secretPath := filepath.Join(s.Dir, "secret.txt")
		for _, cmd := range c.Commands {
			stdin.Write(envelope(strings.ReplaceAll(cmd, "SECRETPATH", secretPath)))
		}
		select {
		case <-done:
		case <-time.After(400 * time.Millisecond):
		}
		client.Close()
		<-done
		o.Classes = append(o.Classes, "health-session-commands")
		o.NonTrivial = true
		if bytes.Contains(out.Bytes(), []byte("PLANTED-SECRET")) {
			o.Fail = fmt.Sprintf("a health session disclosed file content on commands %q", c.Commands)
			o.Observed = out.String()
		}
	}
	return o
}

func TestC09Handshake(t *testing.T) {
	lib.Run(t, lib.Spec[hsCase]{Prop: "C09", Check: "handshake",
		Rule: "real SSH logins (x/crypto/ssh client) against one server process: public-key logins with generated authorized_keys files (rewritten per case) and offered keys; password logins for every pairing of {alice, DTAIL-HEALTH, DTAIL-SCHEDULE, DTAIL-CONTINUOUS, look-alikes} x {health password, names of scheduled / continuous jobs whose AllowFrom is localhost / 127.0.0.1 / another address / empty / unresolvable, the same job name in both lists with different AllowFrom, near misses}; granted health sessions then send 1..3 read/map commands naming a planted secret; oracle: granted <=> the property's rule; a health session never returns the secret; non-trivial = key file with >=2 keys and a non-key line, or a background-user login with a job name, or a health session with commands",
		Gen:  genHS, Eval: evalHS,
		SampleOf: func(c hsCase) interface{} {
			return map[string]interface{}{"user": c.User, "method": c.Method, "password": c.Password, "offered": c.Offered, "commands": c.Commands}
		}})
}
