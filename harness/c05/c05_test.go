package c05

import (
	"fmt"
	"os"
	"path/filepath"
	"regexp"
	"sort"
	"strings"
	"sync/atomic"
	"testing"
	"time"

	"github.com/mimecast/dtail/verif/gen"
	"github.com/mimecast/dtail/verif/lib"
	"github.com/mimecast/dtail/verif/model"
	"pgregory.net/rapid"
)

var root string

func TestMain(m *testing.M) {
	lib.Main(m, func() {
		lib.InitDtailServer()
		cwd, _ := os.Getwd()
		root, _ = os.MkdirTemp(cwd, "c05-")
	})
}

// Partition assigns every row to (server, file) and places partial transmissions.
type Partition struct {
	Server   []int // per row
	File     []int // per row
	NServers int
	NFiles   []int   // per server
	SerAfter [][]int // per server: after how many pushed lines
}

type maprCase struct {
	Table gen.Table
	Q     gen.Q
	Part  Partition
	// Repeat > 1: every row stands for that many identical consecutive lines (same server, same file), so that
	// counts and sums reach magnitudes at which the partial results are transmitted in exponent notation
	Repeat int `json:",omitempty"`
}

func (c maprCase) rep() int {
	if c.Repeat > 1 {
		return c.Repeat
	}
	return 1
}

func genPartition(t *rapid.T, tb gen.Table) Partition {
	var p Partition
	n := len(tb.Rows)
	p.NServers = rapid.SampledFrom([]int{1, 1, 2, 2, 3, 4}).Draw(t, "nservers")
	p.NFiles = make([]int, p.NServers)
	for s := range p.NFiles {
		p.NFiles[s] = 1
		if tb.Format != "csv" && rapid.IntRange(0, 3).Draw(t, "multifile") == 0 {
			p.NFiles[s] = rapid.IntRange(2, 3).Draw(t, "nfiles")
		}
	}
	p.Server = make([]int, n)
	p.File = make([]int, n)
	count := make([]int, p.NServers)
	for i := 0; i < n; i++ {
		p.Server[i] = rapid.IntRange(0, p.NServers-1).Draw(t, "srv")
		p.File[i] = rapid.IntRange(0, p.NFiles[p.Server[i]]-1).Draw(t, "file")
		count[p.Server[i]]++
	}
	p.SerAfter = make([][]int, p.NServers)
	for s := 0; s < p.NServers; s++ {
		if count[s] > 1 && rapid.Bool().Draw(t, "hasser") {
			k := rapid.SampledFrom([]int{1, 2, 3, 5, 8}).Draw(t, "nser")
			var pts []int
			for j := 0; j < k; j++ {
				pts = append(pts, rapid.IntRange(1, count[s]).Draw(t, "serpt"))
			}
			// sort ascending
			for a := 0; a < len(pts); a++ {
				for b := a + 1; b < len(pts); b++ {
					if pts[b] < pts[a] {
						pts[a], pts[b] = pts[b], pts[a]
					}
				}
			}
			p.SerAfter[s] = pts
		}
	}
	return p
}

func genCase(clean bool) func(t *rapid.T) maprCase {
	return func(t *rapid.T) maprCase {
		tb := gen.GenTable(clean).Draw(t, "table")
		q := gen.MaprQuery(tb, !clean).Draw(t, "query")
		return maprCase{Table: tb, Q: q, Part: genPartition(t, tb)}
	}
}

var caseN int64

func tableRegex(q gen.Q) *regexp.Regexp {
	// what the mapreduce client asks the servers to grep for (internal/clients/maprclient.go)
	switch strings.ToUpper(q.Table) {
	case "", ".":
		return regexp.MustCompile(".")
	case "*":
		return regexp.MustCompile(`\|MAPREDUCE:\|`)
	}
	return regexp.MustCompile(`\|MAPREDUCE:` + regexp.QuoteMeta(strings.ToUpper(q.Table)) + `\|`)
}

func parts(c maprCase, single bool) []lib.ServerPart {
	tb := c.Table
	re := tableRegex(c.Q)
	if single {
		var lines []string
		if tb.Format == "csv" {
			lines = append(lines, tb.Header())
		}
		for _, r := range tb.Rows {
			if l := tb.Line(r); tb.Format != "default" || re.MatchString(l) {
				for k := 0; k < c.rep(); k++ {
					lines = append(lines, l)
				}
			}
		}
		return []lib.ServerPart{{Host: "h0", Files: [][]string{lines}}}
	}
	ps := make([]lib.ServerPart, c.Part.NServers)
	for s := range ps {
		ps[s].Host = fmt.Sprintf("h%d", s)
		ps[s].Files = make([][]string, c.Part.NFiles[s])
		if tb.Format == "csv" {
			ps[s].Files[0] = append(ps[s].Files[0], tb.Header())
		}
		ps[s].SerializeAfter = c.Part.SerAfter[s]
	}
	for i, r := range tb.Rows {
		l := tb.Line(r)
		if tb.Format == "default" && !re.MatchString(l) {
			continue
		}
		s, f := c.Part.Server[i], c.Part.File[i]
		for k := 0; k < c.rep(); k++ {
			ps[s].Files[f] = append(ps[s].Files[f], l)
		}
	}
	return ps
}

var ansi = regexp.MustCompile("\x1b\\[[0-9;]*m")

func evalCase(c maprCase) lib.Outcome {
	var o lib.Outcome
	id := atomic.AddInt64(&caseN, 1)
	out := filepath.Join(root, fmt.Sprintf("out-%d.csv", id%64))
	q := c.Q
	q.HasOutfile, q.Outfile, q.OutQuoted = true, out, true
	queryStr := gen.Canonical(q)
	qNoLimit := q
	qNoLimit.HasLimit = false
	baseStr := gen.Canonical(qNoLimit)

	// the "*" table (every MAPREDUCE line) is asked for with the regex \|MAPREDUCE:\| which no line can match:
	// a query "from *" yields nothing by construction of the client; skip that oddity here
	if q.Table == "*" {
		return lib.Outcome{Skip: true}
	}

	// classes
	nparts := 0
	for s := 0; s < c.Part.NServers; s++ {
		nparts += c.Part.NFiles[s] + len(c.Part.SerAfter[s])
	}
	aggNum := false
	for _, s := range q.Select {
		switch s.Agg {
		case "count", "avg", "min", "max", "sum":
			aggNum = true
		}
	}
	o.Classes = []string{"format=" + c.Table.Format, fmt.Sprintf("servers=%d", c.Part.NServers)}
	if c.Table.Clean {
		o.Classes = append(o.Classes, "clean-table")
	} else {
		o.Classes = append(o.Classes, "wide-table")
	}
	if nparts > c.Part.NServers {
		o.Classes = append(o.Classes, "multi-file-or-partial")
	}
	if q.HasLimit {
		o.Classes = append(o.Classes, "limit")
	}
	if q.HasOrder {
		o.Classes = append(o.Classes, "order")
	}
	if len(q.Set) > 0 {
		o.Classes = append(o.Classes, "set")
	}
	if q.HasWhere {
		o.Classes = append(o.Classes, "where")
	}

	// expected groups from the reference model (front half valid everywhere; numbers only on clean tables)
	var rows, urows []map[string]string
	for _, r := range c.Table.Rows {
		m := c.Table.Fields(r)
		urows = append(urows, m)
		for k := 0; k < c.rep(); k++ {
			rows = append(rows, m)
		}
	}
	exp := model.EvalQuery(q, rows)
	if c.rep() > 1 {
		o.Classes = append(o.Classes, fmt.Sprintf("repeat>=1e%d", len(fmt.Sprint(c.rep()))-1))
	}

	// do >=2 partitions contribute to a common group?
	shared := false
	{
		seen := map[string]map[int]bool{}
		gb := []string{q.Select[0].Field}
		if len(q.GroupBy) > 0 {
			gb = nil
			for _, g := range q.GroupBy {
				gb = append(gb, g.Name)
			}
		}
		for i, m := range urows {
			var kp []string
			for _, g := range gb {
				kp = append(kp, m[g])
			}
			k := strings.Join(kp, ",")
			if seen[k] == nil {
				seen[k] = map[int]bool{}
			}
			seen[k][c.Part.Server[i]*8+c.Part.File[i]] = true
		}
		for _, s := range seen {
			if len(s) >= 2 {
				shared = true
			}
		}
		for s := range c.Part.SerAfter {
			if len(c.Part.SerAfter[s]) > 0 {
				shared = shared || len(rows) > 1
			}
		}
	}
	o.NonTrivial = shared && aggNum && nparts >= 2

	base, err := lib.RunMapr(baseStr, parts(c, true), 30*time.Second)
	if err != nil {
		o.Fail = "baseline (one server, one file, no limit): " + err.Error()
		return o
	}
	dist, err := lib.RunMapr(queryStr, parts(c, false), 60*time.Second)
	if err != nil {
		o.Fail = "distributed run: " + err.Error()
		return o
	}
	if dist.Messages > 0 && dist.Partials > 0 {
		o.Classes = append(o.Classes, "partial-transmissions")
	}

	// (1) metamorphic: the distributed result must be a valid result of the baseline groups.
	// Baseline rows become expected rows: numeric cells as printed (tolerance), last/len cells from the model's candidates.
	if msg := compareToBaseline(q, exp, base.Rows, dist.Rows); msg != "" {
		o.Fail = "distributed result differs from the single-partition result: " + msg
		o.Expected = map[string]interface{}{"query": queryStr, "baseline_rows": base.Rows, "lines": clipLines(c)}
		o.Observed = map[string]interface{}{"rows": dist.Rows, "partition": c.Part}
		return o
	}
	// (2a) on any table: the groups, their counts and their last/len values are what the reference model's
	// where / set / group-by evaluation yields (sums, minima, maxima, averages are left to the metamorphic oracle)
	if !c.Table.Clean {
		if msg := model.CheckResult(q, model.Structure(exp), dist.Rows); msg != "" {
			o.Fail = "groups / counts differ from central evaluation by the reference model: " + msg
			o.Expected = map[string]interface{}{"query": queryStr, "groups": fmtExp(model.Structure(exp)), "lines": clipLines(c)}
			o.Observed = map[string]interface{}{"rows": dist.Rows}
			return o
		}
	}
	// (2) reference model on the restricted domain
	if c.Table.Clean {
		if msg := model.CheckResult(q, exp, dist.Rows); msg != "" {
			o.Fail = "result differs from central evaluation by the reference model: " + msg
			o.Expected = map[string]interface{}{"query": queryStr, "groups": fmtExp(exp), "lines": clipLines(c)}
			o.Observed = map[string]interface{}{"rows": dist.Rows}
			return o
		}
		wantHeader := []string{}
		for _, s := range q.Select {
			wantHeader = append(wantHeader, s.Storage())
		}
		if strings.Join(dist.Header, ",") != strings.Join(wantHeader, ",") {
			o.Fail = fmt.Sprintf("CSV header %q, want %q", dist.Header, wantHeader)
			return o
		}
	}
	// (3) the coloured result table is the plain table plus escape sequences (C16 for the table)
	truncated := q.HasLimit && q.Limit < len(exp)
	if !truncated && sortLines(ansi.ReplaceAllString(dist.TableCol, "")) != sortLines(dist.Table) {
		o.Fail = "coloured result table differs from the plain table after stripping escape sequences"
		o.Expected, o.Observed = dist.Table, dist.TableCol
	}
	return o
}

// compareToBaseline: the baseline's printed rows become the expected rows. Numeric cells must agree
// (tolerance); a last/len cell may hold any value the reference model's grouping admits in that column
// for some group (which group a printed row belongs to is not observable without the key).
func compareToBaseline(q gen.Q, exp []model.ExpRow, base, dist [][]string) string {
	union := make([]map[string]bool, len(q.Select))
	for k := range union {
		union[k] = map[string]bool{}
		for _, e := range exp {
			if k < len(e.Cells) && e.Cells[k].Kind == "oneof" {
				for v := range e.Cells[k].OneOf {
					union[k][v] = true
				}
			}
		}
	}
	var exp2 []model.ExpRow
	for _, br := range base {
		var r model.ExpRow
		for k, s := range q.Select {
			switch s.Agg {
			case "", "last", "len":
				u := map[string]bool{br[k]: true}
				for v := range union[k] {
					u[v] = true
				}
				r.Cells = append(r.Cells, model.Cell{Kind: "oneof", OneOf: u})
			case "count":
				r.Cells = append(r.Cells, model.Cell{Kind: "count", Num: model.OrderValue(br[k])})
			default:
				r.Cells = append(r.Cells, model.Cell{Kind: "num", Num: model.OrderValue(br[k])})
			}
		}
		exp2 = append(exp2, r)
	}
	return model.CheckResult(q, exp2, dist)
}

func isGroupField(q gen.Q, f string) bool {
	if len(q.GroupBy) == 0 {
		return q.Select[0].Field == f
	}
	for _, g := range q.GroupBy {
		if g.Name == f {
			return true
		}
	}
	return false
}

// two Result calls may order tied rows differently: compare the tables as multisets of lines
func sortLines(s string) string {
	l := strings.Split(s, "\n")
	sort.Strings(l)
	return strings.Join(l, "\n")
}

func fmtExp(exp []model.ExpRow) []string {
	var out []string
	for _, e := range exp {
		var cs []string
		for _, c := range e.Cells {
			if c.Kind == "oneof" {
				var ks []string
				for k := range c.OneOf {
					ks = append(ks, k)
				}
				cs = append(cs, "{"+strings.Join(ks, "|")+"}")
			} else {
				cs = append(cs, fmt.Sprintf("%f", c.Num))
			}
		}
		out = append(out, e.Key+": "+strings.Join(cs, ","))
	}
	return out
}

func clipLines(c maprCase) []string {
	var out []string
	for i, r := range c.Table.Rows {
		if i >= 40 {
			out = append(out, "...")
			break
		}
		out = append(out, fmt.Sprintf("s%d/f%d %s", c.Part.Server[i], c.Part.File[i], c.Table.Line(r)))
	}
	return out
}

const ruleText = "table of 1..300 log lines (default / generickv / csv format; 1-2 group keys with 1-5 values, 1-3 numeric keys, optional text key) x query (select of plain fields and count/sum/min/max/avg/last/len, from, where, set with functions, group by 1-2 keys or default, order/rorder, limit) x partition (1-4 servers x 1-3 files, 0-8 partial-result transmissions per server); oracle (1) metamorphic: result == result of the same lines on one server in one file; (2) on clean tables: result == central evaluation by the reference model (multiset of rows, numeric tolerance 2e-6, valid top-k under limit, monotone order keys, last/len any group value); non-trivial = >=2 partitions contribute to a common group and a numeric aggregation is selected; distinct by full case"

func sample(c maprCase) interface{} {
	q := c.Q
	return map[string]interface{}{"query": gen.Canonical(q), "format": c.Table.Format, "rows": len(c.Table.Rows), "servers": c.Part.NServers, "files": c.Part.NFiles, "partials": c.Part.SerAfter, "first_lines": clipLines(c)[:min(3, len(c.Table.Rows))]}
}

func min(a, b int) int {
	if a < b {
		return a
	}
	return b
}

func TestC05Clean(t *testing.T) {
	lib.Run(t, lib.Spec[maprCase]{Prop: "C05", Check: "clean", Rule: "clean tables (every field present, numeric keys numeric): " + ruleText, Gen: genCase(true), Eval: evalCase, SampleOf: sample})
}

// genScaleCase: a clean table of 1..3 rows, every row standing for about a million identical lines which all go to
// one (server, file): group counts and sums of 10^6 and more inside one partial result.
func genScaleCase(t *rapid.T) maprCase {
	tb := gen.GenTable(true).Draw(t, "table")
	if n := rapid.IntRange(1, 3).Draw(t, "nrows"); len(tb.Rows) > n {
		tb.Rows = tb.Rows[:n]
	}
	q := gen.MaprQuery(tb, false).Draw(t, "query")
	c := maprCase{Table: tb, Q: q, Part: genPartition(t, tb)}
	c.Repeat = rapid.SampledFrom([]int{1000000, 999999, 1000001, 1048576, 1234567, 2000000}).Draw(t, "repeat")
	for s := range c.Part.SerAfter { // partial transmissions somewhere in the stream, not only within the first lines
		for j := range c.Part.SerAfter[s] {
			c.Part.SerAfter[s][j] *= rapid.SampledFrom([]int{1, 1000, 500000, c.Repeat}).Draw(t, "serscale")
		}
		sort.Ints(c.Part.SerAfter[s])
	}
	return c
}

func TestC05Scale(t *testing.T) {
	lib.Run(t, lib.Spec[maprCase]{Prop: "C05", Check: "scale", Rule: "clean tables of 1..3 rows, each row repeated 999999..2000000 times on one (server, file), 1-4 servers, partial transmissions anywhere in the stream; same oracles as 'clean'; non-trivial as there", Gen: genScaleCase, Eval: evalCase, SampleOf: sample})
}

func TestC05Wide(t *testing.T) {
	lib.Run(t, lib.Spec[maprCase]{Prop: "C05", Check: "wide", Rule: "wide tables (missing fields, words where numbers are expected, aggregations over any field; metamorphic oracle only): " + ruleText, Gen: genCase(false), Eval: evalCase, SampleOf: sample})
}
