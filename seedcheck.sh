#!/bin/bash
# seedcheck.sh <PROP> <n> <demo-dir-in-repo> [tier] [extra-props...]
# Confirms a seeded change delivered by a sub-agent in /tmp/seed-<PROP>-out/change<n>/ :
#   patch applies to /repo HEAD, builds, suite passes with it, demo fails with it and passes without it;
# then runs the check(s) against a scratch worktree carrying the change and records everything under /verif/seeded/<PROP>-<n>/.
set -u
P=$1; N=$2; DEMODIR=$3; TIER=${4:-quick}; shift 4 2>/dev/null || shift $#
EXTRA="$@"
SRC=/tmp/seed-$P-out/change$N
DST=/verif/seeded/$P-${DSTN:-$N}
WT=/tmp/sc-$P-$N
. /verif/env.sh
git -C /repo worktree remove --force $WT >/dev/null 2>&1
git -C /repo worktree add -q --detach $WT HEAD || exit 3
res() { echo "$1=$2"; eval "R_$1=\"$2\""; }
cd $WT
if git apply --check $SRC/patch.diff 2>/dev/null; then git apply $SRC/patch.diff; res applies yes; else res applies no; git apply --3way $SRC/patch.diff 2>&1 | tail -2; fi
go build ./... >/dev/null 2>&1 && res builds yes || res builds no
go test -vet=off -count=1 ./... > /tmp/sc-$P-$N.suite 2>&1 && res suite_with_patch pass || res suite_with_patch FAIL
mkdir -p $WT/$DEMODIR; cp $SRC/demo/*.go $WT/$DEMODIR/ 2>/dev/null
go test -vet=off -count=1 ./$DEMODIR/ > /tmp/sc-$P-$N.demo1 2>&1 && res demo_with_patch pass || res demo_with_patch FAIL
git apply -R $SRC/patch.diff
go test -vet=off -count=1 ./$DEMODIR/ > /tmp/sc-$P-$N.demo0 2>&1 && res demo_without_patch pass || res demo_without_patch FAIL
for f in $SRC/demo/*.go; do rm -f $WT/$DEMODIR/$(basename $f); done
git apply $SRC/patch.diff
cd /verif
mkdir -p $DST/demo
cp $SRC/patch.diff $DST/patch.diff; cp $SRC/demo/* $DST/demo/ 2>/dev/null; cp $SRC/README.md $DST/README.agent.md 2>/dev/null
CHK=""
for Q in $P $EXTRA; do
  VERIF_REPO=$WT VERIF_SCRATCH=/tmp/vs-$P-$N /verif/vcheck $Q $TIER > /tmp/sc-$P-$N.check.$Q 2>&1; rc=$?
  viol=$(grep -c '^VIOLATION' /tmp/sc-$P-$N.check.$Q)
  first=$(grep -A1 '^VIOLATION' /tmp/sc-$P-$N.check.$Q | grep 'check=' | head -1 | cut -c1-300)
  echo "check $Q $TIER: exit=$rc violations=$viol :: $first"
  CHK="$CHK{\"property\":\"$Q\",\"tier\":\"$TIER\",\"exit\":$rc,\"violation_lines\":$viol},"
done
python3 - <<PY
import json,os
meta={}
try: meta=json.load(open("$SRC/meta.json"))
except Exception as e: meta={"agent_meta_error":str(e)}
out={"property":"$P","seed":"$P-${DSTN:-$N}","agent_meta":meta,"base_commit":"$(git -C /repo rev-parse --short HEAD)",
 "confirmed":{"patch_applies":"$R_applies","builds":"$R_builds","suite_with_patch":"$R_suite_with_patch","demo_with_patch":"$R_demo_with_patch","demo_without_patch":"$R_demo_without_patch","demo_dir":"$DEMODIR"},
 "what_i_ran":"git worktree of /repo HEAD; git apply patch.diff; go build ./...; go test -vet=off -count=1 ./... ; demo copied to $DEMODIR and run with go test (with and without the patch); then VERIF_REPO=<worktree> ./vcheck <prop> $TIER",
 "checks":json.loads("[" + """$CHK""".rstrip(",") + "]")}
json.dump(out,open("$DST/meta.json","w"),indent=1)
PY
git -C /repo worktree remove --force $WT; rm -rf /tmp/vs-$P-$N
